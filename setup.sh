#!/bin/sh
# offline set-up: hypothesis into /venv if missing, atheris into /verif/.deps (optional)
cd "$(dirname "$0")" || exit 1
/venv/bin/python -c "import hypothesis" 2>/dev/null || \
  /venv/bin/pip install --no-index --find-links /opt/veriftools/wheels hypothesis || exit 1
if [ ! -d .deps/atheris ]; then
  /venv/bin/pip install --no-index --find-links /opt/veriftools/wheels --target .deps atheris >/dev/null 2>&1 || \
    echo "note: atheris not installed; coverage-guided tiers fall back to Hypothesis mutators"
fi
/venv/bin/python -c "import hypothesis, pycparser; print('setup ok: hypothesis', hypothesis.__version__)"
