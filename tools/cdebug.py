#!/venv/bin/python
"""debug aid: write the generated C for a stored case into a directory and build it.  usage: cdebug.py case.json outdir"""
import json, os, subprocess, sys
sys.path.insert(0, os.path.dirname(os.path.dirname(os.path.abspath(__file__))))
from vlib import env, jsonio
import asn1tools
from asn1tools.source import c
d = json.load(open(sys.argv[1]))
case = d.get('case', d)
out = sys.argv[2]
os.makedirs(out, exist_ok=True)
spec = jsonio.spec_dec(case['spec'])
codec = case['codec']
comp = asn1tools.compile_string(spec.text(), codec)
h, src, fz, mk = c.generate(comp, codec, 'ns', 'gen.h', 'gen.c', 'fuzz.c')
open(out + '/gen.h', 'w').write(h); open(out + '/gen.c', 'w').write(src); open(out + '/fuzz.c', 'w').write(fz)
open(out + '/spec.asn', 'w').write(spec.text())
p = subprocess.run(['gcc', '-std=c99', '-pedantic-errors', '-Wall', '-Wextra', '-g', '-fPIC', '-shared', '-o', out + '/gen.so', out + '/gen.c'])
print('gcc', p.returncode)
