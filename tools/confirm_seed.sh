#!/bin/sh
# usage: tools/confirm_seed.sh <worktree> <ID> <slug> "<checks that catch it>"
# confirms: demo fails with change, passes without; suite baseline unchanged; then stores under /verif/seeded/
wt=$1; id=$2; slug=$3; caught=$4
cd "$wt" || exit 2
PYTHONPATH="$wt" /venv/bin/python _seed/demo.py >/tmp/demo_with.txt 2>&1; with=$?
# (not git stash: the stash is shared between worktrees)
git diff > /tmp/confirm_seed.$$.diff
git apply -R /tmp/confirm_seed.$$.diff
PYTHONPATH="$wt" /venv/bin/python _seed/demo.py >/tmp/demo_without.txt 2>&1; without=$?
git apply /tmp/confirm_seed.$$.diff; rm -f /tmp/confirm_seed.$$.diff
echo "demo with change: exit $with; without: exit $without"
summary=$(/venv/bin/python -m pytest -q -p no:cacheprovider --timeout=900 2>&1 | tail -1)
echo "suite with change: $summary"
nf=$(echo "$summary" | grep -c "7 failed, 486 passed")
if [ "$with" != "0" ] && [ "$without" = "0" ] && [ "$nf" = "1" ]; then
  d=/verif/seeded/$id/$slug; mkdir -p $d
  git diff > $d/patch.diff
  cp _seed/demo.py $d/demo.py
  /venv/bin/python - "$d" "$id" "$summary" "$caught" <<'PY'
import json, sys
d, pid, summary, caught = sys.argv[1:5]
try:
    meta = json.load(open('_seed/meta.json'))
except Exception:
    meta = {}
meta['property'] = pid
meta['confirmed'] = {'demo_exit_with_change': 'non-zero', 'demo_exit_without_change': 0,
                     'suite_with_change': summary,
                     'ran': 'tools/confirm_seed.sh: demo.py with/without the change (git apply -R), full pytest suite with the change'}
meta['caught_by'] = caught
json.dump(meta, open(d + '/meta.json', 'w'), indent=1)
PY
  echo "stored $d"
else
  echo "NOT CONFIRMED"
fi
