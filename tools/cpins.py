#!/venv/bin/python
"""Pinned replays for C09/C10 (generated C code): fixed defects and known findings.  Run by hand."""
import json
import os
import sys

sys.path.insert(0, os.path.dirname(os.path.dirname(os.path.abspath(__file__))))
from vlib import asn, common, jsonio, env  # noqa
from vlib.asn import Ty, Member, Group, Rng, Module, Spec  # noqa
import asn1tools  # noqa

VERIF = os.path.dirname(os.path.dirname(os.path.abspath(__file__)))


def mod(types):
    m = Module('M', 'AUTOMATIC', False)
    m.types = list(types)
    s = Spec([m])
    s.link()
    return s


def seq(*members, **kw):
    return Ty('SEQUENCE', root=list(members), **kw)


def M(name, ty, **kw):
    return Member(name, ty, **kw)


def INT(lo, hi):
    return Ty('INTEGER', rng=Rng(lo, hi))


def ENUM(*names):
    return Ty('ENUMERATED', enum_root=[(n, i, False) for i, n in enumerate(names)])


def BOOL():
    return Ty('BOOLEAN')


def pin(prop, slug, codec, spec, typename=None, value=None, **extra):
    extra.setdefault('outside', None)
    if typename is not None:
        case = common.mk_case(spec, 'M', typename, value, codec=codec, **extra)
    else:
        case = dict({'spec': jsonio.spec_enc(spec), 'text': spec.texts(), 'codec': codec}, **extra)
    case['property'] = prop
    d = os.path.join(VERIF, 'replays', prop)
    os.makedirs(d, exist_ok=True)
    with open(os.path.join(d, slug + '.json'), 'w') as f:
        json.dump(case, f, indent=1, sort_keys=True)
    print('wrote replays/%s/%s.json' % (prop, slug))


def foreign(spec2, typename, v2):
    c2 = asn1tools.compile_string(spec2.text(), 'oer')
    return {'bytes': bytes(c2.encode(typename, v2)).hex(), 'value': jsonio.enc(v2)}


def main():
    both = (('C09', 'uper'), ('C10', 'oer'))
    for prop, codec in both:
        pin(prop, 'c-enum-hyphen', codec,
            mod([('A', seq(M('a', Ty('ENUMERATED', enum_root=[('dark-red', 5, True), ('b', 2, True)]))))]), 'A',
            {'a': 'dark-red'})
        pin(prop, 'c-choice-all-null', codec,
            mod([('A', Ty('CHOICE', root=[M('a', Ty('NULL')), M('b', Ty('NULL'))]))]), 'A', ('b', None))
        pin(prop, 'c-seq-of-max-zero', codec,
            mod([('A', seq(M('a', Ty('SEQUENCE OF', elem=BOOL(), size=Rng(0, 0)))))]))
        pin(prop, 'c-octet-string-max-zero', codec,
            mod([('A', seq(M('a', Ty('OCTET STRING', size=Rng(0, 0)))))]))
        pin(prop, 'c-null-only-struct', codec,
            mod([('A', seq(M('x', seq(M('a', Ty('NULL')))), M('b', BOOL())))]), 'A', {'x': {'a': None}, 'b': True})
        pin(prop, 'c-enum-default-hyphen', codec,
            mod([('A', seq(M('a', ENUM('dark-red', 'b'), has_default=True, default='dark-red',
                             default_txt='dark-red'), M('b', BOOL())))]), 'A', {'a': 'b', 'b': True})
        pin(prop, 'c-recursive-type', codec,
            mod([('A', seq(M('a', BOOL()), M('r', Ty('REF', ref='A'), optional=True)))]))
        pin(prop, 'c-default-above-int64', codec,
            mod([('A', seq(M('b', INT(0, 18446744073709551615), has_default=True, default=9223372036854775935,
                             default_txt='9223372036854775935')))]), 'A', {'b': 5})
        pin(prop, 'c-signed-type-width', codec,
            mod([('A', Ty('SEQUENCE OF', elem=INT(-2219, 4294965077), size=Rng(1, 3)))]), 'A',
            [-1, 2147483648, 4294965077])
    pin('C09', 'uper-choice-extension-bit', 'uper',
        mod([('A', Ty('CHOICE', root=[M('a', BOOL()), M('b', INT(0, 5))], ext=[]))]), 'A', ('b', 3))
    pin('C09', 'uper-fixed-width-helper', 'uper', mod([('A', seq(M('a', INT(1, 256)), M('b', INT(-1, 254))))]), 'A',
        {'a': 256, 'b': 254})
    pin('C09', 'uper-real-rejected', 'uper', mod([('A', seq(M('a', Ty('REAL')), M('b', BOOL())))]), 'A',
        {'a': 1.5, 'b': True}, outside='REAL')
    pin('C09', 'uper-named-bit-constants', 'uper',
        mod([('A', Ty('BIT STRING', named_bits=[('a', 0), ('z', 3)], size=Rng(4, 4)))]), 'A', (b'\x90', 4))
    pin('C09', 'uper-addition-flags', 'uper',
        mod([('A', seq(M('a', BOOL()), ext=[M('b', BOOL(), optional=True)]))]), 'A', {'a': True},
        outside='additions')
    # ---- OER
    ext_elem = seq(M('a', BOOL()), ext=[M('b', BOOL(), optional=True)])
    pin('C10', 'oer-addition-flag-hyphen', 'oer',
        mod([('A', seq(M('a', BOOL()), ext=[M('b-c', BOOL())]))]), 'A', {'a': True, 'b-c': False})
    pin('C10', 'oer-unknown-bits-loop-variable', 'oer',
        mod([('A', Ty('SEQUENCE OF', elem=ext_elem, size=Rng(1, 2)))]), 'A',
        [{'a': True, 'b': True}, {'a': False, 'b': False}])
    pin('C10', 'oer-bit-string-46', 'oer', mod([('A', seq(M('a', Ty('BIT STRING', size=Rng(46, 46)))))]), 'A',
        {'a': (b'\xa5\x00\x00\x00\x01\xfc', 46)})
    pin('C10', 'oer-addition-enum-length-expr', 'oer',
        mod([('Aa', ENUM('red', 'ee')),
             ('A', seq(M('m', BOOL()), ext=[M('b', Ty('REF', ref='Aa'), optional=True),
                                           M('null-y', ENUM('x', 'y'), optional=True)]))]), 'A',
        {'m': True, 'b': 'ee', 'null-y': 'y'})
    v1 = mod([('A', seq(M('a', BOOL()), ext=[]))])
    v2 = mod([('A', seq(M('a', BOOL()), ext=[M('n', INT(0, 255))]))])
    pin('C10', 'oer-empty-marker-skips-additions', 'oer', v1, 'A', None,
        foreign=foreign(v2, 'A', {'a': True, 'n': 7}), log=['addition@A'])
    adds8 = [M('x%d' % i, BOOL(), optional=True) for i in range(8)]
    v1 = mod([('A', seq(M('a', BOOL()), ext=list(adds8)))])
    v2 = mod([('A', seq(M('a', BOOL()), ext=list(adds8) + [M('n', INT(0, 255))]))])
    pin('C10', 'oer-eight-additions-then-unknown', 'oer', v1, 'A', None,
        foreign=foreign(v2, 'A', {'a': True, 'x0': True, 'n': 7}), log=['addition@A'])
    # ---- known findings
    for prop, codec in both:
        pin(prop, 'c-choice-additions-dropped', codec,
            mod([('A', Ty('CHOICE', root=[M('a', BOOL())], ext=[M('b', BOOL())]))]), 'A', ('b', True),
            outside=('additions' if codec == 'uper' else None))
    pin('C10', 'oer-c-addition-length-static', 'oer',
        mod([('A', seq(M('a', BOOL()), ext=[M('l', seq(M('u', BOOL(), optional=True)))]))]), 'A',
        {'a': True, 'l': {}})


if __name__ == '__main__':
    main()
