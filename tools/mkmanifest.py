#!/venv/bin/python
"""Regenerate /verif/MANIFEST.json from the table below and validate it."""
import json
import os
import sys

VERIF = os.path.dirname(os.path.dirname(os.path.abspath(__file__)))

# id -> (engine, category, level text, level note, technique)
CHECKS = {
    'C01': ('hypothesis', 'exploration',
            'generated modules x values x 5 binary codecs x numeric_enums; round-trip to abstract equality, '
            'decoded value re-encodes, canonical codecs re-encode to identical bytes',
            'trusts vlib/aeq.py as the definition of abstract equality; modules the library cannot compile and '
            'values the library itself rejects are counted, not judged',
            'property-based testing (Hypothesis), round-trip oracle'),
    'C02': ('hypothesis', 'exploration',
            'generated modules x values x {jer,xer} x indent {None,0,1,4} x numeric_enums: output parses as strict '
            'JSON / well-formed XML (expat), decodes to the same abstract value (REAL: same IEEE double), the '
            'parsed document is the same at every indent, decoded value re-encodes',
            'trusts Python json and expat as the independent readers; XER strings restricted to XML 1.0 Char',
            'property-based testing (Hypothesis), round-trip + metamorphic (indent) oracle, independent parsers'),
    'C03': ('hypothesis + model/der', 'exploration',
            'generated modules x values, codec der: bytes equal an independent X.690 DER encoder driven by the AST; an '
            'independent TLV re-read finds definite minimal lengths and primitive strings; abstractly equal values in '
            'other Python representations encode to identical bytes',
            'trusts vlib/model/der.py + tlv.py (self-tested on 31 hand-checked vectors at start-up; agreement on ~20k '
            'generated comparisons per run is itself evidence for the model)',
            'differential property-based testing against an independent DER model, plus metamorphic equal-value check'),
    'C07': ('hypothesis', 'exploration',
            'generated V1 module sets and V2 = V1 after 1-5 legal extension steps at random extensible nodes x V2 and V1 '
            'values x 7 codecs: V1.decode(V2.encode(v2)) equals the V1 projection of v2 (unknown additions dropped, '
            'unknown alternative (None, None), unknown enumeration item None) and V2.decode(V1.encode(v1)) equals v1',
            'projection and abstract equality are vlib/evolve.py and vlib/aeq.py; trailing root components after a second '
            'marker are not generated (their AUTOMATIC numbering is a scope note in DESIGN.md)',
            'property-based testing (Hypothesis) over generated version pairs, cross-version differential'),
    'C08': ('hypothesis', 'exploration',
            'generated modules x valid encodings x drawn structure-aware mutations and random bytes (<= 4 KiB) x 7 decoding '
            'codecs: decode returns or raises within a deterministic work budget (interpreter call events proportional to '
            'input length x type size, calibrated on valid decodes), sampled tracemalloc peak within a proportional '
            'budget, and the same compiled object still decodes a valid input correctly afterwards',
            'work measured with sys.setprofile call events; loops inside C extensions only by a 20 s watchdog; expat/json trusted',
            'mutation-based property testing (Hypothesis-drawn mutations) with a deterministic work-meter oracle'),
    'C11': ('hypothesis', 'exploration',
            'generated modules with the interpreted constraint forms x valid values, each constrained component '
            'replaced in turn by lb-1/lb/ub/ub+1 (sizes likewise, one character outside FROM): '
            'encode(check_constraints=True) raises ConstraintsError iff the independent interpreter says a '
            'non-extensible single-range/SIZE/FROM constraint is violated; same for decode(check_constraints=True)',
            'trusts vlib/model/constraints.py (35 lines) as the reading of which constraints count',
            'property-based testing (Hypothesis), differential against an independent constraint interpreter'),
    'C12': ('hypothesis', 'exploration',
            'generated modules x valid values; every component position x every applicable corruption (Python types the '
            'type check rejects, unknown CHOICE alternative / ENUMERATED name, missing mandatory member, bound '
            'violations) x 8 codecs: encode with checks raises EncodeError/ConstraintsError whose text starts with '
            'the independently computed dotted path; the uncorrupted value is never rejected by the type check',
            'expected path computed by vlib/model/paths.py; tokens inserted at recursive references are optional',
            'property-based testing (Hypothesis), fault injection into values, independent path model'),
    'C13': ('hypothesis stateful', 'exploration',
            'Hypothesis rule-based state machine over one parsed dictionary: histories of up to 6 compile_dict calls '
            '(8 codecs x numeric_enums) interleaved with eval(pformat(d)), deepcopy and pre_process_dict; after every '
            'compile every object compiled so far must behave like a fresh compile_string on a probe set',
            'behaviour is observed on generated probe values (encode bytes / error text, decode value, truncated decode)',
            'stateful property-based testing (Hypothesis RuleBasedStateMachine), differential against a fresh compile'),
    'C14': ('hypothesis', 'exploration',
            'fixture corpus (tests/files/**/*.asn) + generated modules, tokenised by an independent lexer and re-laid-out '
            'with drawn white-space/comments at token boundaries incl. inside multi-word keywords: parse results and '
            'accept/reject are equal across layouts; comment delimiters inside string literals stay literal; with an '
            'illegal token injected both layouts blame the same token and report the line it is on',
            'trusts vlib/lexer.py to find token boundaries (unlexable texts are skipped and counted)',
            'metamorphic property-based testing (Hypothesis) with an independent lexer, fault injection for error positions'),
    'C15': ('hypothesis', 'exploration',
            'generated modules x values, ber/der: decode_with_length(m+tail) == (decode(m), len(m)); '
            'decode_length on every prefix of the header region == len(m) iff the prefix holds the complete '
            'identifier and length octets (independent header reader), else None',
            'trusts the 15-line independent X.690 header reader in vlib/checks/c15.py',
            'property-based testing (Hypothesis), exhaustive prefix enumeration per case, independent header model'),
    'C16': ('hypothesis', 'exploration',
            'generated modules x values x 5 binary codecs x every strict byte-prefix of the encoding: decode must '
            'raise asn1tools.DecodeError (not return a value, not raise a foreign exception)',
            'assumes the encoders emit no byte their own decoder does not need (argued in DESIGN.md C16)',
            'property-based testing (Hypothesis), exhaustive prefix enumeration per case'),
    'C17': ('hypothesis stateful + crash-point enumeration', 'fault_enumeration',
            'rule-based state machine over one cache directory: file writes, compile_files with varying files/order/'
            'codec/numeric_enums/any_defined_by_choices (cached compile in a fresh process vs uncached), cache-file '
            'corruption at drawn offsets, and a populating child SIGKILLed at its n-th diskcache/sqlite3 call event; '
            'a cached result must behave like the uncached compile or the call must fail',
            'crash points are Python-level call events inside diskcache/sqlite3; power-loss reordering is not modelled',
            'stateful property-based testing with enumerated crash points, differential against uncached compile'),
    'C18': ('hypothesis stateful', 'exploration',
            'rule-based state machine: histories of up to 50 encode/decode operations (valid, ill-typed, truncated, '
            'bit-flipped) on one compiled specification; every result equals the same call on a freshly compiled '
            'specification and arguments are unmodified; the history is replayed on 1-8 threads with varied switch '
            'intervals',
            'the threaded replay does not own the interpreter schedule (best-effort); the sequential part is deterministic',
            'stateful property-based testing (Hypothesis), differential against a fresh compile per operation'),
    'C19': ('hypothesis', 'exploration',
            'generated module sets x meaning-preserving re-arrangements (permute assignments/modules, move a '
            'definition into a new module with IMPORTS, inline a reference at a member, extract an inline member '
            'type) x probe values x 8 codecs: identical bytes, decoded values and error classes',
            're-arrangements are applied only where tag default, extensibility default and automatic tagging of '
            'the container are unaffected; behaviour observed on generated probe values',
            'metamorphic property-based testing (Hypothesis)'),
    'C20': ('hypothesis', 'exploration',
            'generated modules x values x indent {None,0,2,4} x numeric_enums, codec gser: an independent RFC 3641 / '
            'X.680 value-notation reader consumes the whole text after the literal wrapper and returns the same '
            'abstract value; consecutive different values of a type must give different text',
            'trusts vlib/model/gser.py (type-directed reader written from RFC 3641, lenient only about optional white-space)',
            'property-based testing (Hypothesis) against an independent reader (round-trip through the model)'),
}

ALL = ['C%02d' % i for i in range(1, 21)]
NOT_BUILT_REASON = 'check not built yet in this session (planned, see DESIGN.md section 8)'
NOT_APPLICABLE = {}


def main():
    checks = []
    for cid in ALL:
        if cid not in CHECKS:
            continue
        engine, cat, text, note, tech = CHECKS[cid]
        checks.append({
            'property_id': cid,
            'quick_cmd': './vcheck %s --tier quick' % cid,
            'thorough_cmd': './vcheck %s --tier thorough' % cid,
            'evidence_file': 'evidence/%s.json' % cid,
            'replay_cmd_template': './vcheck %s --replay {path}' % cid,
            'engine': engine,
            'level_claimed': {'category': cat, 'text': text, 'design_ref': 'DESIGN.md section 3 ' + cid},
            'level_note': note,
            'technique': tech,
        })
    na = []
    for cid in ALL:
        if cid not in CHECKS:
            na.append({'property_id': cid, 'reason': NOT_APPLICABLE.get(cid, NOT_BUILT_REASON)})
    man = {
        'version': 1,
        'setup_cmd': 'sh setup.sh',
        'hooks': {
            'guard': 'ASN1TOOLS_VERIF',
            'enable': 'no source hooks: every observation point is the public API; checks import asn1tools '
                      "from /repo's working tree on every run",
            'baseline_off_cmd': 'cd /repo && /venv/bin/python -m pytest -ra -q -p no:cacheprovider '
                                '--timeout=900 --continue-on-collection-errors',
            'source_commits': [],
            'add_only': True,
        },
        'engines': [
            {'name': 'vlib', 'path': 'vlib/', 'serves_properties': sorted(CHECKS),
             'kind_free_text': 'Hypothesis harness: own ASN.1 AST + printer (vlib/asn.py, gen.py), value '
                               'generators, abstract equality, independent reference models (vlib/model), '
                               'sharded runner with collect-then-shrink, known findings and replay'},
        ],
        'checks': checks,
        'not_applicable': na,
        'notes': 'All checks decide by generated-input search against an explicit oracle (property-based testing / '
                 'fuzzing). Known findings: known-findings.txt. Seeded breaking changes: seeded/.',
    }
    path = os.path.join(VERIF, 'MANIFEST.json')
    with open(path, 'w') as f:
        json.dump(man, f, indent=1)
        f.write('\n')
    try:
        import jsonschema
        schema = json.load(open('/root/.vp/MANIFEST.schema.json'))
        jsonschema.validate(man, schema)
        print('MANIFEST.json valid; %d checks, %d not_applicable' % (len(checks), len(na)))
    except ImportError:
        print('jsonschema not importable here; wrote MANIFEST.json unvalidated')


if __name__ == '__main__':
    sys.exit(main())
