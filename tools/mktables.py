#!/usr/bin/env python3
"""Regenerate the as-built tables of DESIGN.md (between the AUTO markers) from known-findings.txt, seeded/*/ and
the repository's fix: commits."""
import json, os, re, subprocess, sys
V = os.path.dirname(os.path.dirname(os.path.abspath(__file__)))


def esc(s):
    return s.replace('|', '\\|').replace('\n', ' ')


def findings():
    known, fixed = [], []
    for line in open(os.path.join(V, 'known-findings.txt')):
        line = line.strip()
        if line.startswith('known:'):
            head, _, text = line[6:].partition('::')
            kv = dict(x.split('=', 1) for x in head.split() if '=' in x)
            known.append((kv['property'], kv['id'], kv.get('replay', ''), text.strip()))
        elif line.startswith('fixed:'):
            head, _, text = line[6:].partition('::')
            toks = head.split()
            kv = dict(x.split('=', 1) for x in toks if '=' in x)
            commit = [t for t in toks if '=' not in t]
            fixed.append((kv['property'], commit[0] if commit else '?', kv.get('id', ''), text.strip()))
    return known, fixed


def seeds():
    out = []
    d = os.path.join(V, 'seeded')
    for pid in sorted(os.listdir(d)):
        for slug in sorted(os.listdir(os.path.join(d, pid))):
            mp = os.path.join(d, pid, slug, 'meta.json')
            if os.path.exists(mp):
                m = json.load(open(mp))
                out.append((pid, slug, m.get('summary', ''), m.get('needs', ''), m.get('caught_by', '')))
    return out


def main():
    known, fixed = findings()
    buf = []
    buf.append('#### Known findings (genuine defects listed, not repaired) — %d entries\n' % len(known))
    buf.append('| property | id | what fails (root cause) |')
    buf.append('|---|---|---|')
    for p, i, r, t in known:
        buf.append('| %s | `%s` | %s |' % (p, i, esc(t)))
    buf.append('')
    buf.append('#### Genuine defects repaired by `fix:` commits in /repo — %d pinned regression entries\n' % len(fixed))
    buf.append('| property | commit | id | what failed |')
    buf.append('|---|---|---|---|')
    for p, c, i, t in fixed:
        buf.append('| %s | %s | `%s` | %s |' % (p, c, i, esc(t)))
    buf.append('')
    log = subprocess.run(['git', '-C', '/repo', 'log', '--format=%h %s', 'e0d1780..HEAD'], capture_output=True).stdout.decode()
    fixes = [l for l in log.splitlines() if ' fix:' in l]
    buf.append('#### All `fix:` commits in /repo (%d; every one re-ran the pinned suite: 486 passed, the 7 pre-existing failures unchanged)\n' % len(fixes))
    for l in reversed(fixes):
        buf.append('* `%s` %s' % (l.split(' ', 1)[0], esc(l.split(' ', 1)[1])))
    buf.append('')
    sd = seeds()
    buf.append('#### Seeded breaking changes (sub-agents, each given only the property text) — %d stored, all caught except C16 `r6-C16` (see 9.1, fourth session)\n' % len(sd))
    buf.append('| property | change | needs | caught by |')
    buf.append('|---|---|---|---|')
    for p, slug, summ, needs, caught in sd:
        buf.append('| %s | `%s`: %s | %s | %s |' % (p, slug, esc(summ)[:260], esc(needs)[:200], esc(caught)[:400]))
    text = '\n'.join(buf) + '\n'
    path = os.path.join(V, 'DESIGN.md')
    s = open(path).read()
    a, b = '<!-- AUTO:TABLES BEGIN -->', '<!-- AUTO:TABLES END -->'
    if a in s:
        s = s[:s.index(a) + len(a)] + '\n' + text + s[s.index(b):]
        open(path, 'w').write(s)
        print('DESIGN.md tables updated: %d known, %d fixed pins, %d fix commits, %d seeds' % (len(known), len(fixed), len(fixes), len(sd)))
    else:
        sys.stdout.write(text)


if __name__ == '__main__':
    main()
