#!/venv/bin/python
"""Write the pinned replay files (replays/<ID>/<slug>.json) for fixed defects and
known findings from compact definitions.  Run by hand when an entry is added."""
import datetime
import json
import os
import sys

sys.path.insert(0, os.path.dirname(os.path.dirname(os.path.abspath(__file__))))
from vlib import asn, common, jsonio  # noqa
from vlib.asn import Ty, Member, Group, Tag, Rng, Alpha, Module, Spec  # noqa

VERIF = os.path.dirname(os.path.dirname(os.path.abspath(__file__)))


def mod(types, tagdefault='AUTOMATIC', ext_implied=False, values=()):
    m = Module('M', tagdefault, ext_implied)
    m.types = list(types)
    m.values = list(values)
    return Spec([m])


def seq(*members, **kw):
    return Ty('SEQUENCE', root=list(members), **kw)


def M(name, ty, **kw):
    return Member(name, ty, **kw)


def pin(prop, slug, spec, typename, value, **extra):
    case = common.mk_case(spec, 'M', typename, value, **extra)
    case['property'] = prop
    d = os.path.join(VERIF, 'replays', prop)
    os.makedirs(d, exist_ok=True)
    with open(os.path.join(d, slug + '.json'), 'w') as f:
        json.dump(case, f, indent=1, sort_keys=True)
    print('wrote replays/%s/%s.json' % (prop, slug))


def late_pins():
    names = ['e%d' % i for i in range(70)]
    pin('C05', 'per-aligned-small-number-ge-64',
        mod([('E', Ty('ENUMERATED', enum_root=[('r0', 0, False)],
                      enum_ext=[(nm, i + 1, False) for i, nm in enumerate(names)]))]), 'E', 'e64', codec='per')
    adds = [M('m%d' % i, Ty('BOOLEAN'), optional=True) for i in range(65)]
    pin('C05', 'per-aligned-small-length-gt-64',
        mod([('S', seq(M('a', Ty('BOOLEAN')), ext=adds))]), 'S', {'a': True, 'm64': True}, codec='per')


def pins_session3():
    pin('C05', 'per-aligned-small-string-alignment',
        mod([('A', Ty('NumericString', size=Rng(1, 3)))]), 'A', '12', codec='per')


def pins_session3b():
    # extensible permitted alphabet: a character outside the root is admitted, and '.' is not part of it
    pin('C11', 'from-extension-marker',
        mod([('A', Ty('IA5String', alpha=Alpha([('a', 'f')], ext=True)))]), 'A', 'ax', codec='ber')
    pin('C05', 'from-extension-marker',
        mod([('A', Ty('IA5String', alpha=Alpha([('a', 'f')], ext=True)))]), 'A', 'ab', codec='uper')


def pins_session3c():
    # BER REAL: valid non-normalised binary encoding of 5e-324 (mantissa 8, exponent -1077)
    pin('C04', 'real-exponent-underflow', mod([('A', Ty('REAL'))]), 'A', 5e-324, codec='ber',
        variant='090481fbcb08', extra_keys=['variant'])
    # PER/UPER: out-of-root length of 16384 or more
    pin('C01', 'per-ext-size-fragmentation',
        mod([('A', Ty('OCTET STRING', size=Rng(0, 10, True)))]), 'A', b'\x98' * 70001, codec='uper')
    pin('C05', 'per-ext-size-fragmentation',
        mod([('A', Ty('OCTET STRING', size=Rng(0, 10, True)))]), 'A', b'\x01' * 16384, codec='per')


def pins_session3d():
    pin('C01', 'oer-graphicstring-tag',
        mod([('A', Ty('CHOICE', root=[M('e', Ty('GraphicString')), M('t', Ty('GeneralString'))]))], tagdefault=''),
        'A', ('e', 'w'), codec='oer')


def pins_session3e():
    cx = Ty('CHOICE', root=[M('a', Ty('BOOLEAN'))], ext=[M('c', seq(M('x', Ty('BOOLEAN')), M('foo', Ty('GeneralString'))))])
    spec = mod([('C', cx), ('S', seq(M('p', Ty('REF', ref='C')), M('w', Ty('INTEGER', rng=Rng(0, 255)))))])
    for prop in ('C01', 'C05'):
        pin(prop, 'per-open-type-16k', spec, 'S', {'p': ('c', {'x': True, 'foo': 'z' * 16384}), 'w': 7}, codec='per')


def main():
    late_pins()
    pins_session3e()
    pins_session3d()
    pins_session3c()
    pins_session3b()
    pins_session3()
    tz1 = datetime.timezone(datetime.timedelta(hours=1))
    pin('C01', 'oid-arc2', mod([('A', Ty('OBJECT IDENTIFIER'))]), 'A', '2.48', codec='ber')
    pin('C01', 'group-default-bits',
        mod([('A', seq(M('a', Ty('BOOLEAN')),
                       ext=[Group([M('c', Ty('BOOLEAN')),
                                   M('d', Ty('BIT STRING'), has_default=True, default=(b'\x00', 4),
                                     default_txt="'0000'B")])]))]),
        'A', {'a': True, 'c': False, 'd': (b'\xf0', 4)}, codec='ber')
    pin('C01', 'uper-ext-size-string',
        mod([('A', Ty('VisibleString', size=Rng(2, 2, True)))]), 'A', 'abc', codec='uper')
    pin('C01', 'gentime-tz-minutes', mod([('A', Ty('GeneralizedTime'))]), 'A',
        datetime.datetime(2144, 12, 8, 0, 42, tzinfo=tz1), codec='ber')
    pin('C01', 'per-named-bits-dirty',
        mod([('A', Ty('BIT STRING', named_bits=[('q', 1)], size=Rng(27, 27)))]), 'A',
        (b'\x98R\x93\x9e', 27), codec='per')
    pin('C01', 'oer-time-in-choice',
        mod([('A', Ty('CHOICE', root=[M('h', Ty('BOOLEAN')), M('o', Ty('TIME-OF-DAY'))]))], tagdefault=''), 'A',
        ('o', datetime.time(6, 22, 23)), codec='oer')
    adds = [M('a%d' % i, Ty('BOOLEAN'), optional=True) for i in range(8)]
    pin('C01', 'oer-eight-additions', mod([('A', seq(M('x', Ty('BOOLEAN')), ext=adds))]), 'A',
        {'x': True, 'a3': True, 'a7': False}, codec='oer')
    pin('C01', 'oer-presence-bits-alignment',
        mod([('A', seq(ext=[M('a', Ty('BOOLEAN'), optional=True), M('b', Ty('INTEGER')),
                            M('c', Ty('BOOLEAN'), optional=True)]))]), 'A', {'a': True}, codec='oer')
    pin('C01', 'oer-ext-integer-negative',
        mod([('A', Ty('INTEGER', rng=Rng(0, 0, True)))]), 'A', -1, codec='oer')
    pin('C01', 'bitstring-default-trailing-zeros',
        mod([('A', seq(M('a', Ty('BIT STRING'), has_default=True, default=(b'\x40', 4),
                         default_txt="'0100'B"),
                       M('b', Ty('BIT STRING'), has_default=True, default=(b'\x2c', 8),
                         default_txt="'2C'H")))]), 'A', {}, codec='ber')
    # BER: SEQUENCE decoded order-insensitively
    inner_set = Ty('SET', root=[M('v', Ty('BOOLEAN', tag=Tag('CONTEXT', 11)))])
    pin('C01', 'ber-sequence-retry-optional',
        mod([('A', seq(M('c', Ty('CHOICE', root=[M('b', Ty('BMPString')), M('d', inner_set)]),
                         optional=True),
                       M('r', Ty('SEQUENCE OF', elem=Ty('INTEGER'))),
                       ext=[M('e', Ty('SET OF', elem=Ty('BOOLEAN')))]))], tagdefault=''),
        'A', {'r': [], 'e': []}, codec='der')


if __name__ == '__main__':
    main()


def known():
    # ---- known findings (still failing on the current tree)
    inner = Ty('CHOICE', root=[M('w', Ty('BOOLEAN', tag=Tag('CONTEXT', 12))), M('a', Ty('NULL'))])
    pin('C01', 'oer-choice-in-choice',
        mod([('B', Ty('CHOICE', root=[M('l', inner)]))], tagdefault=''), 'B', ('l', ('a', None)),
        codec='oer')
    pin('C01', 'oer-utf8-fixed-size', mod([('B', Ty('UTF8String', size=Rng(3, 3)))]), 'B',
        'aåb', codec='oer')
    pin('C01', 'ber-skippable-ext-choice',
        mod([('A', seq(M('a', Ty('CHOICE', root=[M('x', Ty('BOOLEAN'))], ext=[]), optional=True),
                       M('b', Ty('SET OF', elem=Ty('INTEGER')))))], tagdefault=''),
        'A', {'b': []}, codec='ber')
    pin('C01', 'per-ext-open-bound',
        mod([('A', Ty('SEQUENCE OF', elem=Ty('BOOLEAN'), size=Rng(0, None, True)))]), 'A', [],
        codec='per')
    pin('C01', 'per-from-single-char',
        mod([('A', Ty('NumericString', size=Rng(7, 25), alpha=Alpha([(' ', ' ')])))]), 'A',
        ' ' * 15, codec='uper')
    pin('C01', 'per-group-zero-bits',
        mod([('R', seq(ext=[Group([M('a', Ty('OCTET STRING', size=Rng(0, 0)))]),
                            M('b', Ty('BOOLEAN'))]))]), 'R', {'a': b'', 'b': False}, codec='uper')


if __name__ == '__main__':
    known()


def known2():
    pin('C02', 'xer-carriage-return', mod([('A', Ty('UTF8String'))]), 'A', 'a\rb', codec='xer')


if __name__ == '__main__':
    known2()


def fixed2():
    pin('C02', 'xer-real', mod([('A', Ty('SEQUENCE OF', elem=Ty('REAL')))]), 'A',
        [1e-05, 1e300, 5e-324, float('-inf')], codec='xer')


if __name__ == '__main__':
    fixed2()


def batch3():
    pin('C01', 'ber-multibyte-tag-false-eod',
        mod([('A', seq(M('v', Ty('SET', root=[M('a', Ty('BOOLEAN'))], tag=Tag('CONTEXT', 129)), optional=True),
                       M('i', Ty('SEQUENCE', root=[], tag=Tag('CONTEXT', 30)))))], tagdefault='IMPLICIT'),
        'A', {'i': {}}, codec='ber')
    pin('C01', 'named-bits-default-size',
        mod([('A', seq(M('a', Ty('BIT STRING', named_bits=[('b2', 14), ('b1', 10), ('q', 18)], size=Rng(20, 20)),
                         has_default=True, default=(b'\x00"\x00', 20), default_txt='{ b2, b1 }')))]),
        'A', {'a': (b'\x00"\x00', 20)}, codec='ber')
    pin('C01', 'per-from-overlap',
        mod([('A', Ty('VisibleString', alpha=Alpha([(' ', ' '), ('8', '>'), (':', ':')])))]),
        'A', '9=: : >', codec='uper')


if __name__ == '__main__':
    batch3()


def c12pins():
    # known: error swallowed in additions
    inner = seq(M('value', Ty('BOOLEAN')), M('d', Ty('INTEGER')))
    spec = mod([('A', seq(M('x', Ty('BOOLEAN')), ext=[M('s', inner)]))])
    pin('C12', 'error-swallowed-in-additions', spec, 'A', {'x': True, 's': {'d': 5}}, codec='per',
        probe='missing:value', under_addition=True, recursive_hops=0, expected_path='A.s')
    spec = mod([('B', seq(M('a', Ty('BOOLEAN')), M('rec', Ty('REF', ref='B'), optional=True)))])
    pin('C12', 'path-recursive-dedup', spec, 'B', {'a': True, 'rec': {'a': True, 'rec': {}}}, codec='uper',
        probe='missing:a', under_addition=False, recursive_hops=2, expected_path='B.rec.(B).rec.(B)')
    spec = mod([('A', Ty('ENUMERATED', enum_root=[('red', 0, False)], enum_ext=[]))])
    pin('C12', 'enum-unknown-name-keyerror-per', spec, 'A', 'no-such-item', codec='uper',
        probe='enum<-unknown-name', expected_path='A')
    pin('C12', 'enum-unknown-name-keyerror-gser', spec, 'A', 'no-such-item', codec='gser',
        probe='enum<-unknown-name', expected_path='A')


if __name__ == '__main__':
    c12pins()


def c02pins():
    pin('C02', 'jer-bitstring-ext-size', mod([('A', Ty('BIT STRING', size=Rng(9, 9, True)))]), 'A',
        (b'\xff', 2), codec='jer')


if __name__ == '__main__':
    c02pins()


def c03pins():
    s = Ty('SET', root=[M('c', Ty('BOOLEAN', tag=Tag('CONTEXT', 16384))), M('b', Ty('BOOLEAN', tag=Tag('CONTEXT', 16383))),
                        M('a', Ty('BOOLEAN', tag=Tag('APPLICATION', 1)))],
           ext=[M('z', Ty('NULL', tag=Tag('CONTEXT', 0)), optional=True)])
    pin('C03', 'set-unsorted', mod([('A', s)], tagdefault='IMPLICIT'), 'A',
        {'a': True, 'b': True, 'c': False, 'z': None}, codec='der')
    pin('C03', 'real-mantissa-leading-zero', mod([('A', Ty('REAL'))]), 'A', 255.0, codec='der')


if __name__ == '__main__':
    c03pins()


def c05pins():
    pin('C05', 'per-empty-complete-encoding', mod([('A', Ty('NULL'))]), 'A', None, codec='uper', zero_bits=True)


if __name__ == '__main__':
    c05pins()


def c06pins():
    g = Ty('SEQUENCE', root=[M('a', Ty('BOOLEAN'))], ext=[Group([M('b', Ty('BOOLEAN')), M('c', Ty('INTEGER'), optional=True)])])
    pin('C06', 'oer-groups-flattened', mod([('A', g)]), 'A', {'a': True, 'b': False, 'c': 5}, codec='oer')
    pin('C06', 'oer-utf8-fixed-size-ascii', mod([('A', Ty('UTF8String', size=Rng(3, 3)))]), 'A', 'foo', codec='oer')


if __name__ == '__main__':
    c06pins()
