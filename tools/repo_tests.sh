#!/bin/sh
# run the repository's suite with the guard off and compare against the pinned baseline
# (486 stable passes; 7 pre-existing failures)
cd /repo || exit 2
out=$(/venv/bin/python -m pytest -q -p no:cacheprovider --timeout=900 2>&1 | grep -E "^(FAILED|ERROR)|passed|failed" )
echo "$out" | tail -12
n=$(echo "$out" | grep -cE "^(FAILED|ERROR)")
echo "$out" | grep -q "486 passed" && [ "$n" = "7" ] && echo BASELINE-OK && exit 0
echo BASELINE-CHANGED; exit 1
