#!/venv/bin/python
"""print the sub-agent prompt for a property id and worktree dir

usage: seed_prompt.py <ID> <worktree> [variant text]
The prompt contains the property text only (nothing about the checks); to avoid duplicates
it names, in one line each, the code areas earlier seeded changes already touched."""
import glob
import json
import sys
pid, wt = sys.argv[1], sys.argv[2]
variant = sys.argv[3] if len(sys.argv) > 3 else ''
p = [json.loads(l) for l in open('/verif/properties.jsonl') if json.loads(l)['id'] == pid][0]
avoid = []
for f in sorted(glob.glob('/verif/seeded/%s/*/meta.json' % pid)):
    try:
        m = json.load(open(f))
        avoid.append('    - ' + ' '.join(str(m.get('summary', '')).split())[:220])
    except Exception:
        pass
avoid_txt = ''
if avoid:
    avoid_txt = ('\nOther people have already tried the following changes; do something DIFFERENT (another code site, '
                 'another construct, another kind of trigger):\n' + '\n'.join(avoid) + '\n')
print(f"""You are helping test a verification effort for the Python library eerimoq/asn1tools (an ASN.1 toolkit: parser, compiler, BER/DER/PER/UPER/OER/XER/JER/GSER codecs, C source generators).

You have your own scratch git worktree of the library at {wt} (work ONLY there; never read or touch /repo or /verif — anything there is off limits, your result must be independent of it). Python with all dependencies is /venv/bin/python; run code against the worktree with `cd {wt} && /venv/bin/python ...` (the worktree is first on sys.path when you run from it; verify with `python -c "import asn1tools; print(asn1tools.__file__)"`).

Here is a semantic property that the library is supposed to satisfy:

  Title: {p['title']}
  Statement: {p['statement']}
  Quantified over: {p['quantifier']['text']}
  Relevant files: {', '.join(p['anchors']['files'])}

Your task: make ONE small, realistic change to the library source in {wt} (the kind of bug a maintainer could plausibly introduce in a refactor or "optimisation") that BREAKS this property, while:
  1. the library still imports and compiles specifications,
  2. the existing test suite still passes exactly as before: run `cd {wt} && /venv/bin/python -m pytest -q -p no:cacheprovider --timeout=900 2>&1 | tail -15` — the expected baseline is "7 failed, 486 passed" with these 7 pre-existing failures: test_codecs_consistency::test_c_source, test_command_line::test_command_line_generate_c_source_oer, ..._c_source_uper, ..._rust_source_uper, test_compile::test_missing_parameterized_value, test_oer::test_c_source, test_parse::test_parse_parameterization. After your change the result must be identical (same 7 failures, 486 passed).
  3. the bug needs something SPECIFIC to manifest — {variant or 'an unusual input (a particular boundary value, length, tag number, nesting or combination of constructs), a multi-step sequence, or two cooperating code sites that each look fine alone'} — not something any ordinary use would expose at once. Avoid trivially global breakage (e.g. every INTEGER wrong).
{avoid_txt}
Deliverables (write them under {wt}/_seed/):
  - patch.diff : `git -C {wt} diff` of your change (source files only, no tests)
  - demo.py : a small standalone program that exits 0 on the unmodified library and exits 1 (printing what went wrong) with your change applied; it must use only the public API (asn1tools.compile_string / compile_dict / compile_files / parse_string, Specification.encode/decode/decode_with_length/decode_length, asn1tools.source.c.generate ...). Verify both directions yourself: run it with the change (fails), then `git diff > _seed/patch.diff; git apply -R _seed/patch.diff`, run it (passes), `git apply _seed/patch.diff` (never use git stash: it is shared between worktrees).
  - meta.json : {{"property": "{pid}", "summary": "...", "needs": "what specific input/sequence is needed to manifest", "files_changed": [...], "tests_run": "the pytest summary line you observed"}}

Do not edit tests. Do not commit. Keep the change minimal (a few lines). When done, reply with a 5-line summary: what you changed, what it needs to manifest, and the test-suite summary line you observed.""")
