#!/venv/bin/python
"""show a replay/violation file in human form"""
import json, sys
sys.path.insert(0, '/verif')
from vlib import jsonio
for p in sys.argv[1:]:
    c = json.load(open(p))
    print('=' * 30, p)
    print('bucket:', c.get('bucket'))
    print('found :', c.get('found', '')[:1500])
    print({k: v for k, v in c.items() if k not in ('spec', 'text', 'value', 'found', 'bucket')})
    for t in c.get('text', []):
        print(t)
    print('type  :', c.get('type'))
    if 'value' in c:
        print('value :', repr(jsonio.dec(c['value']))[:1500])
