#!/bin/sh
# usage: tools/try_seed.sh <patch.diff> <ID> [vcheck args...]  -- apply to /repo, run the check, undo
patch=$1; id=$2; shift 2
git -C /repo diff --quiet || { echo "/repo has uncommitted changes"; exit 2; }
git -C /repo apply "$patch" || exit 2
cd /verif && ./vcheck "$id" "$@" 2>&1 | grep -v "^KNOWN-FINDING" | cut -c1-300 | tail -8
rc=$?
git -C /repo checkout -- .
git -C /repo diff --quiet && echo "(repo restored)"
