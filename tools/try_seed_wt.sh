#!/bin/sh
# usage: tools/try_seed_wt.sh <worktree with the change applied> <ID> [vcheck args...]
# runs the check against the scratch worktree (ASN1V_REPO); /repo is not touched.
# NOTE: this overwrites evidence/<ID>.json with a run against the scratch tree: re-run the check on /repo before committing evidence.
wt=$1; id=$2; shift 2
cd /verif && ASN1V_REPO="$wt" ./vcheck "$id" "$@" 2>&1 | grep -v "^KNOWN-FINDING" | cut -c1-400 | tail -8
