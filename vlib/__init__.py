"""Verification library for the asn1tools properties C01-C20 (see /verif/DESIGN.md)."""
