"""Abstract-value equality over the AST (the only definition of "same value").

aeq(spec, ty, modname, a, b, cfg) -> None if equal else a short path/diff string.
"""
import datetime
import math
import struct

from . import asn


class EqCfg(object):
    def __init__(self, numeric_enums=False, exact_real=False, instants=True,
                 unknown=None):
        self.numeric_enums = numeric_enums
        self.exact_real = exact_real    # same IEEE double (C02) incl. sign of zero
        self.instants = instants        # aware datetimes compared as instants


def norm_bits(v, named):
    data, n = v
    data = bytearray(data)[:(n + 7) // 8]
    if len(data) * 8 < n:
        return None
    if n % 8:
        data[-1] &= (0xff << (8 - n % 8)) & 0xff
    if named:
        # modulo trailing zero bits
        bits = int.from_bytes(bytes(data), 'big') >> (len(data) * 8 - n) if n else 0
        while n > 0 and not (bits & 1):
            bits >>= 1
            n -= 1
        return (bits, n)
    return (bytes(data), n)


def is_bits(v):
    return (isinstance(v, tuple) and len(v) == 2 and isinstance(v[0], (bytes, bytearray))
            and isinstance(v[1], int) and not isinstance(v[1], bool))


def time_eq(a, b, cfg):
    if type(a) is not type(b) and not (isinstance(a, datetime.datetime) and isinstance(b, datetime.datetime)):
        return False
    if isinstance(a, datetime.datetime):
        if (a.tzinfo is None) != (b.tzinfo is None):
            # canonical codecs normalise an aware time to UTC and return it naive
            if cfg.instants:
                an = a if a.tzinfo is None else (a - a.utcoffset()).replace(tzinfo=None)
                bn = b if b.tzinfo is None else (b - b.utcoffset()).replace(tzinfo=None)
                return an == bn
            return False
        return a == b
    return a == b


def aeq(spec, ty, modname, a, b, cfg=None, path=''):
    cfg = cfg or EqCfg()
    r = asn.resolve(spec, ty, modname)
    base = r.base
    k = base.kind

    def bad(msg=None):
        return '%s: %s' % (path or '<top>', msg or '%r != %r' % (a, b))

    if k == 'BOOLEAN':
        return None if (isinstance(a, bool) and isinstance(b, bool) and a == b) else bad()
    if k == 'INTEGER':
        ok = (isinstance(a, int) and isinstance(b, int) and not isinstance(a, bool)
              and not isinstance(b, bool) and a == b)
        return None if ok else bad()
    if k == 'REAL':
        if not isinstance(a, (int, float)) or not isinstance(b, (int, float)):
            return bad()
        if isinstance(a, bool) or isinstance(b, bool):
            return bad()
        fa, fb = float(a), float(b)
        if math.isnan(fa) or math.isnan(fb):
            return None if (math.isnan(fa) and math.isnan(fb)) else bad()
        if cfg.exact_real:
            return None if struct.pack('>d', fa) == struct.pack('>d', fb) else bad()
        return None if fa == fb else bad()
    if k == 'NULL':
        return None if (a is None and b is None) else bad()
    if k == 'ENUMERATED':
        if a is None and b is None:
            return None         # unknown extension item reported as absent (C07 projection)
        if cfg.numeric_enums:
            ok = isinstance(a, int) and isinstance(b, int) and a == b
        else:
            ok = isinstance(a, str) and isinstance(b, str) and a == b
        return None if ok else bad()
    if k == 'BIT STRING':
        if not is_bits(a) or not is_bits(b):
            return bad()
        na, nb = norm_bits(a, bool(base.named_bits)), norm_bits(b, bool(base.named_bits))
        return None if (na is not None and na == nb) else bad()
    if k == 'OCTET STRING':
        ok = isinstance(a, (bytes, bytearray)) and isinstance(b, (bytes, bytearray)) and bytes(a) == bytes(b)
        return None if ok else bad()
    if k == 'OBJECT IDENTIFIER' or k in asn.STRING_KINDS:
        return None if (isinstance(a, str) and isinstance(b, str) and a == b) else bad()
    if k in asn.TIME_KINDS:
        return None if time_eq(a, b, cfg) else bad()
    if k in ('SEQUENCE', 'SET'):
        if not isinstance(a, dict) or not isinstance(b, dict):
            return bad()
        known = set()
        for m in base.all_members():
            known.add(m.name)
            va = a.get(m.name, _ABSENT)
            vb = b.get(m.name, _ABSENT)
            if m.has_default:
                dv = default_value(spec, m, r.mod, cfg)
                if va is _ABSENT:
                    va = dv
                if vb is _ABSENT:
                    vb = dv
            if va is _ABSENT or vb is _ABSENT:
                if va is _ABSENT and vb is _ABSENT:
                    continue
                return '%s.%s: present on one side only (%r vs %r)' % (
                    path, m.name, '<absent>' if va is _ABSENT else va,
                    '<absent>' if vb is _ABSENT else vb)
            d = aeq(spec, m.ty, r.mod, va, vb, cfg, path + '.' + m.name)
            if d:
                return d
        extra = (set(a) | set(b)) - known
        if extra:
            return '%s: unknown members %r' % (path, sorted(extra))
        return None
    if k == 'CHOICE':
        if not (isinstance(a, tuple) and isinstance(b, tuple) and len(a) == 2 and len(b) == 2):
            return bad()
        if a[0] != b[0]:
            return bad()
        for m in base.all_members():
            if m.name == a[0]:
                return aeq(spec, m.ty, r.mod, a[1], b[1], cfg, path + '.' + m.name)
        return None if a == b else bad()
    if k == 'SEQUENCE OF':
        if not isinstance(a, list) or not isinstance(b, list) or len(a) != len(b):
            return bad()
        for i, (x, y) in enumerate(zip(a, b)):
            d = aeq(spec, base.elem, r.mod, x, y, cfg, '%s[%d]' % (path, i))
            if d:
                return d
        return None
    if k == 'SET OF':
        if not isinstance(a, list) or not isinstance(b, list) or len(a) != len(b):
            return bad()
        rest = list(b)
        for i, x in enumerate(a):
            for j, y in enumerate(rest):
                if aeq(spec, base.elem, r.mod, x, y, cfg) is None:
                    del rest[j]
                    break
            else:
                return '%s[%d]: no equal element for %r in %r' % (path, i, x, rest)
        return None
    raise ValueError(k)


class _Absent(object):
    def __repr__(self):
        return '<absent>'


_ABSENT = _Absent()


def default_value(spec, m, modname, cfg):
    v = m.default
    if cfg.numeric_enums and isinstance(v, str):
        base = asn.resolve(spec, m.ty, modname).base
        if base.kind == 'ENUMERATED':
            return dict((e[0], e[1]) for e in base.enum_root)[v]
    return v
