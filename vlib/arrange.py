"""Meaning-preserving re-arrangements of a module set (C19)."""
import copy

from hypothesis import strategies as st

from . import asn
from .asn import Ty, Member, Module, Spec


def uses_valuerefs(t):
    for n in t.walk():
        for c in (n.rng, n.size):
            if c is not None and (c.lo_txt or c.hi_txt):
                return True
    return False


def refs_of(t):
    return [n.ref for n in t.walk() if n.kind == 'REF'] + [r for n in t.walk() for r in (n.raw_refs or [])]


def reachable(spec, modname, name, seen=None):
    seen = seen if seen is not None else set()
    try:
        t, mod = spec.lookup(name, modname)
    except KeyError:
        return seen
    if (mod, name) in seen:
        return seen
    seen.add((mod, name))
    for r in refs_of(t):
        reachable(spec, mod, r, seen)
    return seen


def is_recursive(spec, modname, name):
    t, mod = spec.lookup(name, modname)
    for r in refs_of(t):
        try:
            _, rm = spec.lookup(r, mod)
        except KeyError:
            continue
        if (mod, name) in reachable(spec, mod, r) or r == name and rm == mod:
            return True
    return False


def member_positions(t):
    """(container, member) for every SEQUENCE/SET/CHOICE member below t"""
    out = []
    for n in t.walk():
        if n.kind in ('SEQUENCE', 'SET', 'CHOICE') and n.raw is None:
            for m in n.all_members():
                out.append((n, m))
    return out


def all_type_names(spec):
    return {n for m in spec.modules for n, _ in m.types}


def arrange(draw, spec0, log):
    """Return a deep copy of spec0 re-arranged by 1-4 meaning-preserving steps."""
    spec = copy.deepcopy(spec0)
    spec.link()
    steps = draw(st.integers(1, 4))
    for _ in range(steps):
        kind = draw(st.sampled_from(['permute-types', 'permute-modules', 'split', 'inline', 'extract',
                                     'inline', 'extract', 'merge', 'merge']))
        if kind == 'permute-types':
            m = spec.modules[draw(st.integers(0, len(spec.modules) - 1))]
            if len(m.types) > 1:
                m.types = list(draw(st.permutations(m.types)))
                log.append('permute-types')
        elif kind == 'permute-modules':
            if len(spec.modules) > 1:
                spec.modules = list(draw(st.permutations(spec.modules)))
                log.append('permute-modules')
        elif kind == 'split':
            do_split(draw, spec, log)
        elif kind == 'merge':
            do_merge(draw, spec, log)
        elif kind == 'inline':
            do_inline(draw, spec, log)
        elif kind == 'extract':
            do_extract(draw, spec, log)
        spec.link()
    return spec


def do_split(draw, spec, log):
    cands = []
    for m in spec.modules:
        for n, t in m.types:
            if len(m.types) > 1 and not uses_valuerefs(t) and t.raw is None:
                cands.append((m, n, t))
    if not cands:
        return
    m, n, t = cands[draw(st.integers(0, len(cands) - 1))]
    newname = 'Split%d' % (len(spec.modules) + 1)
    if newname in spec.by_name:
        return
    m2 = Module(newname, m.tagdefault, m.ext_implied)
    # everything T references keeps resolving the way it did in m
    for r in set(refs_of(t)):
        if r == n:
            continue
        if r in m.type_map():
            m2.imports.setdefault(m.name, []).append(r)
        else:
            for frm, syms in m.imports.items():
                if r in syms:
                    m2.imports.setdefault(frm, []).append(r)
    m.types = [(a, b) for a, b in m.types if a != n]
    m2.types.append((n, t))
    # m itself and every importer of T from m now import it from m2
    used_in_m = any(n in refs_of(b) for _, b in m.types)
    if used_in_m:
        m.imports.setdefault(newname, []).append(n)
    for o in spec.modules:
        if o is m:
            continue
        if n in o.imports.get(m.name, []):
            o.imports[m.name] = [x for x in o.imports[m.name] if x != n]
            if not o.imports[m.name]:
                del o.imports[m.name]
            o.imports.setdefault(newname, []).append(n)
    spec.modules.append(m2)
    log.append('split')


def do_merge(draw, spec, log):
    """move every definition of one module into another module with the same tag and extensibility defaults (the
    reverse of split): every reference then resolves locally"""
    pairs = []
    for a in spec.modules:
        for b in spec.modules:
            if a is b or a.tagdefault != b.tagdefault or a.ext_implied != b.ext_implied:
                continue
            names_a = {n for n, _ in a.types} | {n for n, _ in a.values}
            names_b = {n for n, _ in b.types} | {n for n, _ in b.values}
            if names_a & names_b:
                continue
            # a name imported by one of them from a third module must mean the same in the merged module
            imp = {}
            clash = False
            for m in (a, b):
                for frm, syms in m.imports.items():
                    if frm in (a.name, b.name):
                        continue
                    for sname in syms:
                        if imp.setdefault(sname, frm) != frm or sname in names_a | names_b:
                            clash = True
            if not clash:
                pairs.append((a, b))
    if not pairs:
        return
    a, b = pairs[draw(st.integers(0, len(pairs) - 1))]
    # b is merged into a
    a.types = list(a.types) + list(b.types)
    a.values = list(a.values) + list(b.values)
    for frm, syms in b.imports.items():
        if frm == a.name:
            continue
        for sname in syms:
            if sname not in a.imports.setdefault(frm, []):
                a.imports[frm].append(sname)
    a.imports.pop(b.name, None)
    a.imports = {k: v for k, v in a.imports.items() if v}
    moved = {n for n, _ in b.types} | {n for n, _ in b.values}
    for o in spec.modules:
        if o is a or o is b:
            continue
        if b.name in o.imports:
            for sname in o.imports.pop(b.name):
                if sname not in o.imports.setdefault(a.name, []):
                    o.imports[a.name].append(sname)
    spec.modules = [m for m in spec.modules if m is not b]
    log.append('merge')


def do_inline(draw, spec, log):
    cands = []
    for mod in spec.modules:
        for tn, t in mod.types:
            for cont, mem in member_positions(t):
                r = mem.ty
                if r.kind != 'REF' or r.rng is not None or r.size is not None or r.alpha is not None:
                    continue
                try:
                    target, tmod = spec.lookup(r.ref, mod.name)
                except KeyError:
                    continue
                tm = spec.by_name[tmod]
                if tm.tagdefault != mod.tagdefault or tm.ext_implied != mod.ext_implied:
                    continue
                if target.raw is not None or uses_valuerefs(target) and tmod != mod.name:
                    continue
                if r.tag is not None and target.tag is not None:
                    continue
                if mod.tagdefault == 'AUTOMATIC' and target.tag is not None:
                    continue
                if is_recursive(spec, tmod, r.ref):
                    continue
                # the copy's own references must resolve identically from mod; a name that is not visible there at
                # all is imported from the module that defines it
                ok = True
                need = []
                for rr in set(refs_of(target)):
                    try:
                        want = spec.lookup(rr, tmod)
                    except KeyError:
                        ok = False
                        continue
                    try:
                        if spec.lookup(rr, mod.name) != want:
                            ok = False
                    except KeyError:
                        need.append((rr, want[1]))
                if ok:
                    cands.append((mem, target, mod, need))
    if not cands:
        return
    # a DEFAULT (or a constraint) at the member is converted / applied by code that looks at the member's type: prefer
    # those members
    rich = [c for c in cands if c[0].has_default]
    if rich and draw(st.integers(0, 99)) < 60:
        cands = rich
    mem, target, mod, need = cands[draw(st.integers(0, len(cands) - 1))]
    for rr, frm in need:
        if rr not in mod.imports.get(frm, []):
            mod.imports.setdefault(frm, []).append(rr)
    if need:
        log.append('inline-with-import')
    new = copy.deepcopy(target)
    if mem.ty.tag is not None:
        new.tag = mem.ty.tag
    mem.ty = new
    log.append('inline')


def do_extract(draw, spec, log):
    cands = []
    for mod in spec.modules:
        for tn, t in mod.types:
            for cont, mem in member_positions(t):
                x = mem.ty
                if x.kind == 'REF' or x.raw is not None:
                    continue
                if mod.tagdefault == 'AUTOMATIC' and x.tag is not None:
                    continue
                cands.append((mod, mem))
    if not cands:
        return
    rich = [c for c in cands if c[1].has_default]
    if rich and draw(st.integers(0, 99)) < 60:
        cands = rich
    mod, mem = cands[draw(st.integers(0, len(cands) - 1))]
    names = all_type_names(spec)
    i = 1
    while 'Ext%d' % i in names:
        i += 1
    name = 'Ext%d' % i
    x = mem.ty
    tag = x.tag
    x.tag = None
    mod.types.append((name, x))
    mem.ty = Ty('REF', ref=name, tag=tag)
    log.append('extract')
