"""Own ASN.1 AST, printer to ASN.1 text, and static helpers (resolution, tags).

The reference models and oracles are driven by this AST, never by
asn1tools.parse_string output, so parser, compiler and codecs all sit on the
system-under-test side of every comparison.
"""

STRING_KINDS = ['UTF8String', 'NumericString', 'PrintableString', 'IA5String',
                'VisibleString', 'GeneralString', 'BMPString', 'GraphicString',
                'TeletexString', 'UniversalString']
TIME_KINDS = ['UTCTime', 'GeneralizedTime', 'DATE', 'TIME-OF-DAY', 'DATE-TIME']
PRIMS = ['BOOLEAN', 'INTEGER', 'REAL', 'ENUMERATED', 'NULL', 'BIT STRING',
         'OCTET STRING', 'OBJECT IDENTIFIER'] + STRING_KINDS + TIME_KINDS
CONSTRUCTED = ['SEQUENCE', 'SET', 'CHOICE', 'SEQUENCE OF', 'SET OF']

UNIVERSAL_TAG = {
    'BOOLEAN': 1, 'INTEGER': 2, 'BIT STRING': 3, 'OCTET STRING': 4, 'NULL': 5,
    'OBJECT IDENTIFIER': 6, 'REAL': 9, 'ENUMERATED': 10, 'UTF8String': 12,
    'SEQUENCE': 16, 'SEQUENCE OF': 16, 'SET': 17, 'SET OF': 17,
    'NumericString': 18, 'PrintableString': 19, 'TeletexString': 20,
    'IA5String': 22, 'UTCTime': 23, 'GeneralizedTime': 24, 'GraphicString': 25,
    'VisibleString': 26, 'GeneralString': 27, 'UniversalString': 28,
    'BMPString': 30, 'DATE': 31, 'TIME-OF-DAY': 32, 'DATE-TIME': 33,
}

NUMERIC_ALPHA = ' 0123456789'
PRINTABLE_ALPHA = ("ABCDEFGHIJKLMNOPQRSTUVWXYZabcdefghijklmnopqrstuvwxyz"
                   "0123456789 '()+,-./:=?")
VISIBLE_ALPHA = ''.join(chr(c) for c in range(32, 127))
IA5_ALPHA = ''.join(chr(c) for c in range(0, 128))


class Tag(object):
    """cls in {'CONTEXT','APPLICATION','PRIVATE'}; mode None|'IMPLICIT'|'EXPLICIT'."""
    __slots__ = ('cls', 'num', 'mode')

    def __init__(self, cls, num, mode=None):
        self.cls, self.num, self.mode = cls, num, mode

    def text(self):
        c = '' if self.cls == 'CONTEXT' else self.cls + ' '
        m = '' if self.mode is None else ' ' + self.mode
        return '[%s%d]%s' % (c, self.num, m)

    def key(self):
        return (self.cls, self.num, self.mode)


class Rng(object):
    """Value range / size constraint.  lo/hi: int, or None for MIN / MAX.
    ext: extension marker present.  more: additional ranges after the marker.
    lo_txt/hi_txt: how the bound is written (value reference, named number)."""
    __slots__ = ('lo', 'hi', 'ext', 'more', 'lo_txt', 'hi_txt')

    def __init__(self, lo, hi, ext=False, more=(), lo_txt=None, hi_txt=None):
        self.lo, self.hi, self.ext, self.more = lo, hi, ext, tuple(more)
        self.lo_txt, self.hi_txt = lo_txt, hi_txt

    def inner(self, for_size=False):
        lo = self.lo_txt or ('MIN' if self.lo is None else str(self.lo))
        hi = self.hi_txt or ('MAX' if self.hi is None else str(self.hi))
        if self.lo is not None and self.lo == self.hi and lo == hi:
            s = lo
        else:
            s = '%s..%s' % (lo, hi)
        if self.ext:
            s += ', ...'
            for (a, b) in self.more:
                s += ', %s' % (a if a == b else '%s..%s' % (a, b))
        return s

    def contains_root(self, n):
        return (self.lo is None or n >= self.lo) and (self.hi is None or n <= self.hi)

    def key(self):
        return (self.lo, self.hi, self.ext, self.more, self.lo_txt, self.hi_txt)


class Alpha(object):
    """Permitted alphabet (FROM).  items: list of (a, b) inclusive char ranges.
    ext: the constraint is written '(FROM(...), ...)': extensible, every character of the type is admitted
    (and the constraint is not PER-visible)."""
    __slots__ = ('items', 'ext')

    def __init__(self, items, ext=False):
        self.items = [tuple(i) for i in items]
        self.ext = ext

    def chars(self):
        s = set()
        for a, b in self.items:
            for c in range(ord(a), ord(b) + 1):
                s.add(chr(c))
        return ''.join(sorted(s))

    def text(self):
        parts = []
        for a, b in self.items:
            if a == b:
                parts.append('"%s"' % a)
            else:
                parts.append('"%s".."%s"' % (a, b))
        return 'FROM(%s)' % ' | '.join(parts)


class Member(object):
    __slots__ = ('name', 'ty', 'optional', 'has_default', 'default', 'default_txt', 'auto')

    def __init__(self, name, ty, optional=False, has_default=False, default=None,
                 default_txt=None):
        self.name, self.ty, self.optional = name, ty, optional
        self.has_default, self.default, self.default_txt = has_default, default, default_txt
        self.auto = None     # tag number given by AUTOMATIC TAGS (set by Spec.link)


class Group(object):
    """[[ ... ]] extension addition group."""
    __slots__ = ('members',)

    def __init__(self, members):
        self.members = list(members)


class Ty(object):
    __slots__ = ('kind', 'tag', 'named', 'rng', 'enum_root', 'enum_ext', 'named_bits',
                 'size', 'alpha', 'root', 'ext', 'root2', 'elem', 'elem_name', 'ref',
                 'ref_mod', 'wc', 'uid', 'raw', 'raw_refs')

    def __init__(self, kind, **kw):
        self.kind = kind
        self.tag = None
        self.named = None        # INTEGER named numbers [(name, int)]
        self.rng = None          # INTEGER value range (also allowed on REF)
        self.enum_root = None    # [(name, number, explicit)]
        self.enum_ext = None     # None | [(name, number, explicit)]
        self.named_bits = None   # [(name, pos)]
        self.size = None         # Rng (also allowed on REF)
        self.alpha = None        # Alpha
        self.root = None         # [Member] SEQUENCE/SET/CHOICE
        self.ext = None          # None | [Member|Group]
        self.root2 = None        # None | [Member]  (root members after 2nd marker)
        self.elem = None
        self.elem_name = None
        self.ref = None
        self.ref_mod = None      # module the reference is written in (filled by Spec.link)
        self.wc = None           # REAL WITH COMPONENTS: (mlo, mhi, base, elo, ehi)
        self.uid = None
        self.raw = None          # printed instead of the structure (COMPONENTS OF etc.); the
        #                          structure then only describes the value space
        self.raw_refs = None     # type names the raw text refers to (COMPONENTS OF X -> ['X'])
        for k, v in kw.items():
            setattr(self, k, v)

    # ---- structure helpers
    def all_members(self):
        """All Member objects of a SEQUENCE/SET/CHOICE in textual order."""
        out = list(self.root or [])
        for a in (self.ext or []):
            if isinstance(a, Group):
                out.extend(a.members)
            else:
                out.append(a)
        out.extend(self.root2 or [])
        return out

    def children(self):
        if self.kind in ('SEQUENCE', 'SET', 'CHOICE'):
            return [m.ty for m in self.all_members()]
        if self.kind in ('SEQUENCE OF', 'SET OF'):
            return [self.elem]
        return []

    def walk(self):
        yield self
        for c in self.children():
            for x in c.walk():
                yield x


class Module(object):
    def __init__(self, name, tagdefault='', ext_implied=False):
        self.name = name
        self.tagdefault = tagdefault      # '' | 'EXPLICIT' | 'IMPLICIT' | 'AUTOMATIC'
        self.ext_implied = ext_implied
        self.imports = {}                 # from-module -> [symbol]
        self.types = []                   # [(name, Ty)]
        self.values = []                  # [(name, int)]  INTEGER value assignments

    def type_map(self):
        return dict(self.types)


class Spec(object):
    def __init__(self, modules):
        self.modules = list(modules)
        self.link()

    def link(self):
        self.by_name = {m.name: m for m in self.modules}
        for m in self.modules:
            for _, t in m.types:
                for n in t.walk():
                    if n.kind == 'REF':
                        n.ref_mod = m.name
                    if n.kind in ('SEQUENCE', 'SET', 'CHOICE'):
                        ms = n.all_members()
                        auto = (m.tagdefault == 'AUTOMATIC' and
                                not any(x.ty.tag is not None for x in ms))
                        for i, x in enumerate(ms):
                            x.auto = i if auto else None

    def lookup(self, name, modname):
        m = self.by_name[modname]
        tm = m.type_map()
        if name in tm:
            return tm[name], modname
        for frm, syms in m.imports.items():
            if name in syms:
                return self.lookup(name, frm)
        raise KeyError(name)

    def module_of(self, ty_or_name):
        for m in self.modules:
            for n, t in m.types:
                if n == ty_or_name or t is ty_or_name:
                    return m
        raise KeyError(ty_or_name)

    def top_types(self):
        """(module, name, Ty) whose name is unique across modules."""
        seen = {}
        for m in self.modules:
            for n, t in m.types:
                seen.setdefault(n, []).append((m, n, t))
        return [v[0] for v in seen.values() if len(v) == 1]

    def text(self):
        return '\n'.join(print_module(m) for m in self.modules)

    def texts(self):
        return [print_module(m) for m in self.modules]


# ---------------------------------------------------------------------------
# resolution

class Resolved(object):
    """A type seen through its chain of references.

    base     : the non-REF Ty at the end of the chain
    mod      : module name in which base is written (for tag defaults)
    tags     : list of (Tag, modname) from outermost to innermost, as written
    rng/size/alpha : innermost-applied override wins is *not* X.680 (constraints
               intersect); we only keep the outermost one written and the
               generators never stack two different constraints of one kind.
    """
    __slots__ = ('base', 'mod', 'tags', 'rng', 'size', 'alpha', 'chain', 'alpha_ext', 'rngs', 'sizes')


def resolve(spec, ty, modname):
    r = Resolved()
    r.tags = []
    r.rng = r.size = r.alpha = r.alpha_ext = None
    r.rngs, r.sizes = [], []     # every value-range / SIZE constraint along the chain, outermost first (serial
    #                              application, X.680 50: a value must satisfy all of them); rng / size = outermost
    r.chain = []
    t, mod = ty, modname
    hops = 0
    while True:
        if t.tag is not None:
            r.tags.append((t.tag, mod))
        if t.rng is not None:
            r.rngs.append(t.rng)
        if t.size is not None:
            r.sizes.append(t.size)
        if r.rng is None and t.rng is not None:
            r.rng = t.rng
        if r.size is None and t.size is not None:
            r.size = t.size
        if r.alpha is None and r.alpha_ext is None and t.alpha is not None:
            if t.alpha.ext:
                r.alpha_ext = t.alpha       # extensible: constrains nothing; kept for the value generator
            else:
                r.alpha = t.alpha
        if t.kind != 'REF':
            break
        r.chain.append(t.ref)
        t, mod = spec.lookup(t.ref, mod)
        hops += 1
        if hops > 64:
            raise RuntimeError('reference cycle')
    r.base, r.mod = t, mod
    return r


def base_kind(spec, ty, modname):
    return resolve(spec, ty, modname).base.kind


# ---------------------------------------------------------------------------
# printer

def q(s):
    return '"' + s.replace('"', '""') + '"'


def print_default(spec_kind, m):
    if m.default_txt is not None:
        return m.default_txt
    v = m.default
    if isinstance(v, bool):
        return 'TRUE' if v else 'FALSE'
    if isinstance(v, int):
        return str(v)
    if isinstance(v, bytes):
        return "'%s'H" % v.hex().upper()
    if isinstance(v, tuple):
        data, n = v
        bits = ''.join('{:08b}'.format(b) for b in data)[:n]
        return "'%s'B" % bits
    if isinstance(v, str):
        return q(v)
    raise ValueError('cannot print default %r' % (v,))


def print_constraints(t):
    out = ''
    if t.rng is not None:
        out += ' (%s)' % t.rng.inner()
    if t.size is not None and t.alpha is not None:
        out += ' (SIZE(%s) ^ %s)' % (t.size.inner(), t.alpha.text())
    elif t.size is not None:
        out += ' (SIZE(%s))' % t.size.inner()
    elif t.alpha is not None:
        out += ' (%s%s)' % (t.alpha.text(), ', ...' if t.alpha.ext else '')
    return out


def print_member(m, ind):
    s = '%s%s %s' % (ind, m.name, print_type(m.ty, ind))
    if m.optional:
        s += ' OPTIONAL'
    elif m.has_default:
        s += ' DEFAULT ' + print_default(None, m)
    return s


def print_members(t, ind):
    ind2 = ind + '  '
    parts = [print_member(m, ind2) for m in t.root]
    if t.ext is not None:
        parts.append(ind2 + '...')
        for a in t.ext:
            if isinstance(a, Group):
                inner = ',\n'.join(print_member(m, ind2 + '  ') for m in a.members)
                parts.append('%s[[\n%s\n%s]]' % (ind2, inner, ind2))
            else:
                parts.append(print_member(a, ind2))
        if t.root2 is not None:
            parts.append(ind2 + '...')
            parts.extend(print_member(m, ind2) for m in t.root2)
    return '{\n%s\n%s}' % (',\n'.join(parts), ind)


def print_type(t, ind=''):
    if t.raw is not None:
        return t.raw
    s = ''
    if t.tag is not None:
        s += t.tag.text() + ' '
    k = t.kind
    if k == 'REF':
        s += t.ref + print_constraints(t)
    elif k == 'INTEGER':
        s += 'INTEGER'
        if t.named:
            s += ' { %s }' % ', '.join('%s(%d)' % nv for nv in t.named)
        s += print_constraints(t)
    elif k == 'ENUMERATED':
        def item(e):
            return '%s(%d)' % (e[0], e[1]) if e[2] else e[0]
        items = [item(e) for e in t.enum_root]
        if t.enum_ext is not None:
            items.append('...')
            items.extend(item(e) for e in t.enum_ext)
        s += 'ENUMERATED { %s }' % ', '.join(items)
    elif k == 'BIT STRING':
        s += 'BIT STRING'
        if t.named_bits:
            s += ' { %s }' % ', '.join('%s(%d)' % nb for nb in t.named_bits)
        s += print_constraints(t)
    elif k == 'REAL':
        s += 'REAL'
        if t.wc is not None:
            mlo, mhi, base, elo, ehi = t.wc
            s += (' (WITH COMPONENTS { mantissa (%d..%d), base (%d), exponent (%d..%d) })'
                  % (mlo, mhi, base, elo, ehi))
    elif k in ('SEQUENCE', 'SET', 'CHOICE'):
        s += k + ' ' + print_members(t, ind)
    elif k in ('SEQUENCE OF', 'SET OF'):
        w = k.split()[0]
        s += w
        if t.size is not None:
            s += ' (SIZE(%s))' % t.size.inner()
        s += ' OF '
        if t.elem_name:
            s += t.elem_name + ' '
        s += print_type(t.elem, ind)
    else:
        s += k + print_constraints(t)
    return s


def print_module(m):
    hdr = m.name + ' DEFINITIONS'
    if m.tagdefault:
        hdr += ' %s TAGS' % m.tagdefault
    if m.ext_implied:
        hdr += ' EXTENSIBILITY IMPLIED'
    lines = [hdr + ' ::= BEGIN']
    if m.imports:
        imps = ' '.join('%s FROM %s' % (', '.join(syms), frm)
                        for frm, syms in m.imports.items())
        lines.append('IMPORTS %s;' % imps)
    for n, v in m.values:
        lines.append('%s INTEGER ::= %d' % (n, v))
    for n, t in m.types:
        lines.append('%s ::= %s' % (n, print_type(t)))
    lines.append('END')
    return '\n'.join(lines) + '\n'


# ---------------------------------------------------------------------------
# tags (X.680 rules) -- used by generators for legality and by the DER model

EXT_TAG = ('EXT', 0)


def real_tags(tagset):
    return {t for t in tagset if t != EXT_TAG}


def effective_tags(spec, ty, modname):
    """List of (cls, num, explicit?) layers from outermost to innermost, ending
    with the universal tag of the base type; for an untagged CHOICE the last
    entry is ('CHOICE', alts).  Mode resolution follows X.680 31.2: an explicit
    keyword wins; otherwise the tag default of the module *in which the tag is
    written*; AUTOMATIC counts as IMPLICIT; tagging a CHOICE (or untagged
    reference to one) is always EXPLICIT."""
    r = resolve(spec, ty, modname)
    layers = []
    tags = r.tags
    for i, (tag, mod) in enumerate(tags):
        mode = tag.mode
        if mode is None:
            d = spec.by_name[mod].tagdefault
            mode = 'EXPLICIT' if d in ('', 'EXPLICIT') else 'IMPLICIT'
        # a tag directly on a CHOICE (no further tags below) is explicit
        if i == len(tags) - 1 and r.base.kind == 'CHOICE':
            mode = 'EXPLICIT'
        layers.append((tag.cls, tag.num, mode == 'EXPLICIT'))
    return layers, r


def member_tags(spec, m, modname):
    """effective_tags for a member, with the AUTOMATIC tag (if any) outermost."""
    layers, r = effective_tags(spec, m.ty, modname)
    if m.auto is not None:
        explicit = (not layers and r.base.kind == 'CHOICE')
        layers = [('CONTEXT', m.auto, explicit)] + layers
    return layers, r


def member_outer_tag_set(spec, m, modname):
    if m.auto is not None:
        return {('CONTEXT', m.auto)}
    return outer_tag_set(spec, m.ty, modname)


def outer_tag_set(spec, ty, modname, _depth=0):
    """Set of possible outermost (cls, num) tags of a value of this type."""
    layers, r = effective_tags(spec, ty, modname)
    if layers:
        return {(layers[0][0], layers[0][1])}
    if r.base.kind == 'CHOICE':
        if _depth > 16:
            return set()
        out = set()
        for m in r.base.all_members():
            if m.auto is not None:
                out.add(('CONTEXT', m.auto))
            else:
                out |= outer_tag_set(spec, m.ty, r.mod, _depth + 1)
        if r.base.ext is not None or spec.by_name[r.mod].ext_implied:
            # X.680 52.7: the extension insertion point counts as a conceptual element whose
            # tag differs from every ordinary tag but equals that of every other insertion point
            out.add(EXT_TAG)
        return out
    return {('UNIVERSAL', UNIVERSAL_TAG[r.base.kind])}
