"""Driver for generated C code (C09/C10): compile with gcc, view the structs of
the generated header through an independent C parser (pycparser) as ctypes
types, map Python values <-> structs by *shape*, and run encode/decode.

The C side is always exercised in a child process (this module run as a
script) so that a crash of generated code is an observation, not a harness
failure."""
import ctypes
import json
import os
import re
import subprocess
import sys

PRELUDE = '''
typedef unsigned char uint8_t; typedef unsigned short uint16_t; typedef unsigned int uint32_t;
typedef unsigned long uint64_t; typedef signed char int8_t; typedef short int16_t; typedef int int32_t;
typedef long int64_t; typedef _Bool bool; typedef unsigned long size_t; typedef long ssize_t;
'''

BASE = {
    'uint8_t': ctypes.c_uint8, 'uint16_t': ctypes.c_uint16, 'uint32_t': ctypes.c_uint32,
    'uint64_t': ctypes.c_uint64, 'int8_t': ctypes.c_int8, 'int16_t': ctypes.c_int16,
    'int32_t': ctypes.c_int32, 'int64_t': ctypes.c_int64, 'bool': ctypes.c_bool, '_Bool': ctypes.c_bool,
    'float': ctypes.c_float, 'double': ctypes.c_double, 'size_t': ctypes.c_size_t, 'ssize_t': ctypes.c_ssize_t,
    'int': ctypes.c_int, 'unsigned int': ctypes.c_uint,
}


class HeaderView(object):
    """ctypes view of the structs / enums declared in a generated header."""

    def __init__(self, header_text):
        import pycparser
        from pycparser import c_ast
        self.c_ast = c_ast
        text = re.sub(r'^\s*#\s*include.*$', '', header_text, flags=re.M)
        p = subprocess.run(['gcc', '-E', '-P', '-x', 'c', '-'], input=(PRELUDE + text).encode(),
                           capture_output=True)
        if p.returncode != 0:
            raise RuntimeError('cpp failed: ' + p.stderr.decode()[:300])
        self.ast = pycparser.CParser().parse(p.stdout.decode(), filename='<header>')
        self.structs = {}       # name -> ctypes class
        self.enums = {}         # enum name -> {enumerator: value}
        self.enum_of_const = {}
        self.functions = set()
        self.consts = {}        # static const <int type> NAME = <constant>;
        self.anon = 0
        for ext in self.ast.ext:
            self.visit_ext(ext)

    def visit_ext(self, ext):
        c = self.c_ast
        if isinstance(ext, c.Decl):
            t = ext.type
            if isinstance(t, c.FuncDecl):
                self.functions.add(ext.name)
            elif isinstance(t, (c.Struct, c.Union)) and t.decls is not None:
                self.ctype(t)
            elif isinstance(t, c.Enum) and t.values is not None:
                self.enum(t)
            elif isinstance(t, c.TypeDecl) and ext.init is not None and 'const' in (ext.quals or []):
                try:
                    self.consts[ext.name] = self.const(ext.init)
                except RuntimeError:
                    pass

    def enum(self, t):
        vals = {}
        nxt = 0
        for e in t.values.enumerators:
            if e.value is not None:
                nxt = self.const(e.value)
            vals[e.name] = nxt
            nxt += 1
        if t.name:
            self.enums[t.name] = vals
        return vals

    def const(self, node):
        c = self.c_ast
        if isinstance(node, c.Constant):
            return int(node.value.rstrip('uUlL'), 0)
        if isinstance(node, c.UnaryOp) and node.op == '-':
            return -self.const(node.expr)
        raise RuntimeError('unsupported constant expression')

    def ctype(self, t):
        c = self.c_ast
        if isinstance(t, c.TypeDecl):
            return self.ctype(t.type)
        if isinstance(t, c.IdentifierType):
            name = ' '.join(t.names)
            if name not in BASE:
                raise RuntimeError('unknown base type ' + name)
            return BASE[name]
        if isinstance(t, c.ArrayDecl):
            return self.ctype(t.type) * self.const(t.dim)
        if isinstance(t, c.Enum):
            if t.values is not None:
                vals = self.enum(t)
            else:
                vals = self.enums.get(t.name, {})
            cls = type('Enum_' + (t.name or 'anon'), (ctypes.c_int,), {'_enum_values': vals, '_enum_name': t.name})
            return cls
        if isinstance(t, (c.Struct, c.Union)):
            if t.decls is None:
                if t.name not in self.structs:
                    raise RuntimeError('use of undefined struct ' + str(t.name))
                return self.structs[t.name]
            base = ctypes.Structure if isinstance(t, c.Struct) else ctypes.Union
            fields = []
            for d in t.decls:
                fields.append((d.name, self.ctype(d.type)))
            self.anon += 1
            name = t.name or 'anon%d' % self.anon
            cls = type(name, (base,), {'_fields_': fields, '_is_union': isinstance(t, c.Union)})
            if t.name:
                self.structs[t.name] = cls
            return cls
        raise RuntimeError('unsupported declarator %r' % type(t).__name__)


def canonical(name):
    return re.sub(r'[^a-zA-Z0-9]', '_', name)


def snake(value):
    value = re.sub(r'(.)([A-Z][a-z]+)', r'\1_\2', value)
    value = re.sub(r'(_+)', '_', value)
    value = re.sub(r'([a-z0-9])([A-Z])', r'\1_\2', value).lower()
    return canonical(value)


class ShapeError(Exception):
    """the struct the generator emitted cannot hold this ASN.1 type: a mis-translation"""


def is_enum(ct):
    return isinstance(ct, type) and issubclass(ct, ctypes.c_int) and hasattr(ct, '_enum_values')


def fields_of(ct):
    return [f[0] for f in getattr(ct, '_fields_', [])]


def field_type(ct, name):
    for f in ct._fields_:
        if f[0] == name:
            return f[1]
    raise ShapeError('struct %s has no field %r (fields %s)' % (ct.__name__, name, fields_of(ct)))


class Mapper(object):
    def __init__(self, spec, codec):
        import importlib
        self.asn = importlib.import_module('vlib.asn')
        self.spec = spec
        self.codec = codec

    def enum_const(self, ct, item, prefix_hint=None):
        vals = ct._enum_values
        suffix = '_%s_e' % canonical(item)
        hits = [k for k in vals if k.endswith(suffix)]
        if len(hits) != 1:
            # choose the shortest (exact) match
            hits = sorted(hits, key=len)
        if not hits:
            raise ShapeError('enum %s has no enumerator for %r (%s)' % (ct._enum_name, item, sorted(vals)))
        return vals[hits[0]]

    def enum_name(self, ct, number, items):
        vals = ct._enum_values
        for item in items:
            suffix = '_%s_e' % canonical(item)
            hits = sorted([k for k in vals if k.endswith(suffix)], key=len)
            if hits and vals[hits[0]] == number:
                return item
        raise ShapeError('enum value %d of %s names no ASN.1 item' % (number, ct._enum_name))

    # ---------------------------------------------------------- python -> C
    def put(self, ty, modname, v, obj, ct, top=False):
        """store v into obj (a ctypes instance of type ct) or return a scalar to assign"""
        asn = self.asn
        r = asn.resolve(self.spec, ty, modname)
        b = r.base
        k = b.kind
        scalar_kinds = ('BOOLEAN', 'INTEGER', 'ENUMERATED', 'REAL', 'BIT STRING')
        if k in scalar_kinds or k == 'NULL':
            if isinstance(ct, type) and issubclass(ct, ctypes.Structure) and not is_enum(ct):
                names = fields_of(ct)
                if names == ['value']:
                    setattr(obj, 'value', self.scalar(r, v, field_type(ct, 'value')))
                    return None
                if k == 'NULL' and names == ['dummy']:
                    return None
                raise ShapeError('%s mapped to struct %s with fields %s' % (k, ct.__name__, names))
            return self.scalar(r, v, ct)
        if k == 'OCTET STRING':
            data = bytes(v)
            buf_t = field_type(ct, 'buf')
            if len(data) > buf_t._length_:
                raise ShapeError('OCTET STRING of %d bytes does not fit buf[%d]' % (len(data), buf_t._length_))
            if 'length' in fields_of(ct):
                obj.length = len(data)
            elif len(data) != buf_t._length_:
                raise ShapeError('fixed-size OCTET STRING struct but value has another length')
            for i, x in enumerate(data):
                obj.buf[i] = x
            return None
        if k in ('SEQUENCE', 'SET'):
            add_names = set()
            for a in (b.ext or []):
                for m in (a.members if isinstance(a, asn.Group) else [a]):
                    add_names.add(m.name)
            for m in b.all_members():
                cname = canonical(m.name)
                present = m.name in v
                mk = asn.base_kind(self.spec, m.ty, r.mod)
                if m.name in add_names:
                    flag = 'is_%s_addition_present' % cname
                    if flag in fields_of(ct):
                        setattr(obj, flag, present)
                    elif not present:
                        raise ShapeError('no presence flag for absent addition ' + m.name)
                elif m.optional:
                    flag = 'is_%s_present' % cname
                    if flag not in fields_of(ct):
                        raise ShapeError('no presence flag %s in %s' % (flag, ct.__name__))
                    setattr(obj, flag, present)
                if mk == 'NULL':
                    continue
                if not present:
                    if m.has_default and m.name not in add_names:
                        self.assign(obj, ct, cname, m.ty, r.mod, self.default_of(m, r.mod))
                    continue
                self.assign(obj, ct, cname, m.ty, r.mod, v[m.name])
            return None
        if k == 'CHOICE':
            name, inner = v
            ch_t = field_type(ct, 'choice')
            obj.choice = self.enum_const(ch_t, name)
            for m in b.all_members():
                if m.name == name:
                    if asn.base_kind(self.spec, m.ty, r.mod) == 'NULL':
                        return None
                    ut = field_type(ct, 'value')
                    self.assign(obj.value, ut, canonical(name), m.ty, r.mod, inner)
                    return None
            raise ShapeError('unknown alternative')
        if k in ('SEQUENCE OF', 'SET OF'):
            if 'elements' not in fields_of(ct) and all(x is None for x in v):
                # list of NULLs / zero-size: only the length (if variable) is stored
                if 'length' in fields_of(ct):
                    obj.length = len(v)
                return None
            el_t = field_type(ct, 'elements')
            if len(v) > el_t._length_:
                raise ShapeError('list of %d does not fit elements[%d]' % (len(v), el_t._length_))
            if 'length' in fields_of(ct):
                obj.length = len(v)
            elif len(v) != el_t._length_:
                raise ShapeError('fixed-size list struct but value has another length')
            for i, x in enumerate(v):
                et = el_t._type_
                if isinstance(et, type) and issubclass(et, (ctypes.Structure, ctypes.Union)) and not is_enum(et):
                    self.put(b.elem, r.mod, x, obj.elements[i], et)
                else:
                    obj.elements[i] = self.put(b.elem, r.mod, x, None, et)
            return None
        raise ShapeError('unsupported kind in value mapping: ' + k)

    def default_of(self, m, mod):
        v = m.default
        return v

    def assign(self, obj, ct, cname, ty, mod, v):
        ft = field_type(ct, cname)
        if isinstance(ft, type) and issubclass(ft, (ctypes.Structure, ctypes.Union)) and not is_enum(ft):
            self.put(ty, mod, v, getattr(obj, cname), ft)
        else:
            setattr(obj, cname, self.put(ty, mod, v, None, ft))

    def scalar(self, r, v, ct):
        k = r.base.kind
        if k == 'BOOLEAN':
            return bool(v)
        if k == 'INTEGER':
            return int(v)
        if k == 'REAL':
            return float(v)
        if k == 'ENUMERATED':
            if not is_enum(ct):
                raise ShapeError('ENUMERATED mapped to a non-enum field')
            return self.enum_const(ct, v)
        if k == 'BIT STRING':
            # the header's convention (tests/test_uper.c, tests/test_oer.c): UPER keeps the string right aligned
            # in the integer, OER left aligned in ceil(n / 8) bytes
            data, n = v
            if n == 0:
                return 0
            x = int.from_bytes(bytes(data)[:(n + 7) // 8], 'big')
            return x >> (((n + 7) // 8) * 8 - n) if self.codec == 'uper' else x
        if k == 'NULL':
            return 0
        raise ShapeError(k)

    # ---------------------------------------------------------- C -> python
    def get(self, ty, modname, obj, ct, scalar=None):
        asn = self.asn
        r = asn.resolve(self.spec, ty, modname)
        b = r.base
        k = b.kind
        if k in ('BOOLEAN', 'INTEGER', 'ENUMERATED', 'REAL', 'BIT STRING', 'NULL'):
            if isinstance(ct, type) and issubclass(ct, ctypes.Structure) and not is_enum(ct):
                names = fields_of(ct)
                if names == ['value']:
                    return self.unscalar(r, getattr(obj, 'value'), field_type(ct, 'value'))
                if k == 'NULL':
                    return None
                raise ShapeError('%s mapped to struct %s' % (k, ct.__name__))
            return self.unscalar(r, scalar, ct)
        if k == 'OCTET STRING':
            buf_t = field_type(ct, 'buf')
            n = obj.length if 'length' in fields_of(ct) else buf_t._length_
            if n > buf_t._length_:
                return ('<length %d exceeds buf[%d]>' % (n, buf_t._length_))
            return bytes(obj.buf[:n])
        if k in ('SEQUENCE', 'SET'):
            out = {}
            add_names = set()
            for a in (b.ext or []):
                for m in (a.members if isinstance(a, asn.Group) else [a]):
                    add_names.add(m.name)
            for m in b.all_members():
                cname = canonical(m.name)
                mk = asn.base_kind(self.spec, m.ty, r.mod)
                if m.name in add_names:
                    flag = 'is_%s_addition_present' % cname
                    if flag in fields_of(ct) and not getattr(obj, flag):
                        continue
                elif m.optional:
                    if not getattr(obj, 'is_%s_present' % cname):
                        continue
                if mk == 'NULL':
                    out[m.name] = None
                    continue
                out[m.name] = self.fetch(obj, ct, cname, m.ty, r.mod)
            return out
        if k == 'CHOICE':
            ch_t = field_type(ct, 'choice')
            names = [m.name for m in b.all_members()]
            name = self.enum_name(ch_t, int(getattr(obj.choice, 'value', obj.choice)), names)
            for m in b.all_members():
                if m.name == name:
                    if asn.base_kind(self.spec, m.ty, r.mod) == 'NULL':
                        return (name, None)
                    ut = field_type(ct, 'value')
                    return (name, self.fetch(obj.value, ut, canonical(name), m.ty, r.mod))
        if k in ('SEQUENCE OF', 'SET OF'):
            if 'elements' not in fields_of(ct):
                n = obj.length if 'length' in fields_of(ct) else (r.size.lo if r.size is not None else 0)
                return [None] * int(n)
            el_t = field_type(ct, 'elements')
            n = obj.length if 'length' in fields_of(ct) else el_t._length_
            if n > el_t._length_:
                return ['<length %d exceeds elements[%d]>' % (n, el_t._length_)]
            out = []
            et = el_t._type_
            for i in range(n):
                if isinstance(et, type) and issubclass(et, (ctypes.Structure, ctypes.Union)) and not is_enum(et):
                    out.append(self.get(b.elem, r.mod, obj.elements[i], et))
                else:
                    out.append(self.get(b.elem, r.mod, None, et, scalar=obj.elements[i]))
            return out
        raise ShapeError('unsupported kind ' + k)

    def fetch(self, obj, ct, cname, ty, mod):
        ft = field_type(ct, cname)
        if isinstance(ft, type) and issubclass(ft, (ctypes.Structure, ctypes.Union)) and not is_enum(ft):
            return self.get(ty, mod, getattr(obj, cname), ft)
        return self.get(ty, mod, None, ft, scalar=getattr(obj, cname))

    def unscalar(self, r, x, ct):
        k = r.base.kind
        b = r.base
        if k == 'BOOLEAN':
            return bool(x)
        if k == 'INTEGER':
            return int(x)
        if k == 'REAL':
            return float(x)
        if k == 'NULL':
            return None
        if k == 'ENUMERATED':
            items = [e[0] for e in list(b.enum_root) + list(b.enum_ext or [])]
            return self.enum_name(ct, int(getattr(x, 'value', x)), items)
        if k == 'BIT STRING':
            n = r.size.lo
            x = int(x)
            nbytes = (n + 7) // 8
            if self.codec == 'uper':
                x <<= (nbytes * 8 - n)
            if x >> (nbytes * 8):
                return ('<bits outside the %d byte container: %#x>' % (nbytes, x))
            return (x.to_bytes(nbytes, 'big') if n else b'', n)
        raise ShapeError(k)


def named_bit_constants(asn, spec, mapper, ty, modname, prefix):
    """[(constant name, bit name, bit number, value the struct must hold for exactly that bit)] for the
    BIT STRINGs declared inline in a top-level type (references have their own constants)"""
    out = []

    def walk(t, pre):
        if t.kind == 'REF':
            return
        if t.kind in ('SEQUENCE', 'SET', 'CHOICE'):
            for m in t.all_members():
                walk(m.ty, pre + '_' + canonical(m.name))
        elif t.kind in ('SEQUENCE OF', 'SET OF'):
            walk(t.elem, pre)
        elif t.kind == 'BIT STRING' and t.named_bits and t.size is not None and t.size.lo == t.size.hi:
            n = t.size.lo
            r = asn.resolve(spec, t, modname)
            for name, pos in t.named_bits:
                if pos >= n:
                    continue
                data = bytearray((n + 7) // 8)
                data[pos // 8] |= 0x80 >> (pos % 8)
                out.append(((pre + '_' + canonical(name)).upper(), name, pos,
                            mapper.scalar(r, (bytes(data), n), None)))
    walk(ty, prefix)
    return out


# ---------------------------------------------------------------------------
# child process

def child_main(jobfile):
    job = json.load(open(jobfile))
    sys.path.insert(0, job['verif'])
    from vlib import jsonio, aeq
    spec = jsonio.spec_dec(job['spec'])
    view = HeaderView(open(job['header']).read())
    lib = ctypes.CDLL(job['so'])
    mapper = Mapper(spec, job['codec'])
    out = []
    CANARY = 64
    for item in job['items']:
        modname, tname = item['module'], item['type']
        ty = dict(spec.by_name[modname].types)[tname]
        sname = '%s_%s_%s' % (job['ns'], snake(modname), snake(tname))
        res = {'module': modname, 'type': tname, 'results': []}
        out.append(res)
        struct_name = sname + '_t'
        if struct_name not in view.structs or (sname + '_encode') not in view.functions:
            res['error'] = 'no struct/functions %s in the header' % sname
            continue
        ct = view.structs[struct_name]
        enc = getattr(lib, sname + '_encode')
        dec = getattr(lib, sname + '_decode')
        enc.restype = ctypes.c_ssize_t
        dec.restype = ctypes.c_ssize_t
        # named-bit constants must name the bit the codec functions read
        nb = []
        for cname, bname, pos, want_const in named_bit_constants(mapper.asn, spec, mapper, ty, modname, sname):
            got = view.consts.get(cname)
            if got is None:
                nb.append('no constant %s for named bit %s(%d)' % (cname, bname, pos))
            elif got != want_const:
                nb.append('%s = %#x but bit %s(%d) is %#x in the struct member' % (cname, got, bname, pos, want_const))
        res['named_bits_checked'] = len(named_bit_constants(mapper.asn, spec, mapper, ty, modname, sname))
        if nb:
            res['named_bit_errors'] = nb
        for vi, vj in enumerate(item['values']):
            v = jsonio.dec(vj['value'])
            want = bytes.fromhex(vj['encoded'])
            one = {'index': vi}
            res['results'].append(one)
            try:
                obj = ct()
                mapper.put(ty, modname, v, obj, ct, top=True)
            except ShapeError as e:
                one['shape_error'] = str(e)
                continue
            except (TypeError, ValueError, OverflowError, AttributeError) as e:
                one['map_error'] = '%s: %s' % (type(e).__name__, e)
                continue
            # (1) encode
            size = len(want) + 16
            buf = (ctypes.c_uint8 * (size + CANARY))(*([0xA5] * (size + CANARY)))
            n = enc(buf, ctypes.c_size_t(size), ctypes.byref(obj))
            one['c_encode_ret'] = n
            one['c_encoded'] = bytes(buf[:max(n, 0)]).hex()
            one['canary_ok'] = all(x == 0xA5 for x in buf[size:])
            # (3) too-small buffers
            small = []
            for sz in range(0, len(want)):
                b2 = (ctypes.c_uint8 * (sz + CANARY))(*([0x5A] * (sz + CANARY)))
                r2 = enc(b2, ctypes.c_size_t(sz), ctypes.byref(obj))
                ok = (r2 < 0) and all(x == 0x5A for x in b2[sz:])
                if not ok:
                    small.append([sz, r2, all(x == 0x5A for x in b2[sz:])])
                    break
            one['small_buffer_failures'] = small
            # (2) decode
            arena = (ctypes.c_uint8 * (ctypes.sizeof(ct) + 2 * CANARY))(*([0xEE] * (ctypes.sizeof(ct) + 2 * CANARY)))
            obj2 = ct.from_buffer(arena, CANARY)
            src = (ctypes.c_uint8 * max(1, len(want)))(*want)
            m = dec(ctypes.byref(obj2), src, ctypes.c_size_t(len(want)))
            one['c_decode_ret'] = m
            one['decode_canary_ok'] = (all(x == 0xEE for x in arena[:CANARY])
                                       and all(x == 0xEE for x in arena[CANARY + ctypes.sizeof(ct):]))
            if m >= 0:
                try:
                    back = mapper.get(ty, modname, obj2, ct)
                    one['decoded'] = jsonio.enc(back)
                    one['decoded_equal'] = aeq.aeq(spec, ty, modname, v, back, aeq.EqCfg()) is None
                    if not one['decoded_equal']:
                        one['diff'] = aeq.aeq(spec, ty, modname, v, back, aeq.EqCfg())
                except ShapeError as e:
                    one['shape_error'] = str(e)
                except Exception as e:
                    import traceback
                    one['map_error'] = '%s: %s @ %s' % (type(e).__name__, e, traceback.format_exc().splitlines()[-3].strip())
            # truncated input must be an error, never a crash
            for cut in range(0, len(want)):
                obj3 = ct()
                src3 = (ctypes.c_uint8 * max(1, cut))(*want[:cut])
                dec(ctypes.byref(obj3), src3, ctypes.c_size_t(cut))
        # V1-decoder-on-V2-bytes style inputs
        for xi, xj in enumerate(item.get('foreign', [])):
            data = bytes.fromhex(xj['bytes'])
            obj4 = ct()
            ctypes.memset(ctypes.byref(obj4), 0, ctypes.sizeof(obj4))
            src4 = (ctypes.c_uint8 * max(1, len(data)))(*data)
            m = dec(ctypes.byref(obj4), src4, ctypes.c_size_t(len(data)))
            fr = {'index': xi, 'c_decode_ret': m}
            res.setdefault('foreign', []).append(fr)
            if m >= 0:
                try:
                    back = mapper.get(ty, modname, obj4, ct)
                    fr['decoded'] = jsonio.enc(back)
                except Exception as e:
                    fr['map_error'] = '%s: %s' % (type(e).__name__, e)
    print('RESULT ' + json.dumps(out))


if __name__ == '__main__':
    child_main(sys.argv[1])
