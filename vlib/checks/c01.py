"""C01 - binary codecs round-trip every value of every compilable type."""
import os

from .. import asn, aeq, common, gen, jsonio, values
from ..common import asn1tools
from ..runner import Check, Failure, exc_sig, hyp_run

CODECS = ['ber', 'der', 'per', 'uper', 'oer']
CANONICAL = ('der', 'per', 'uper', 'oer')


def profile(tier, shard):
    p = gen.Profile(components_of_rate=6)
    if tier == 'thorough':
        p.max_types = 6
        p.max_depth = 4
        p.big_size_shapes = gen.BIG_SIZE_SHAPES + gen.HUGE_SIZE_SHAPES
    if os.environ.get('ASN1V_SMALL') == '1':
        p.max_types, p.max_depth, p.max_members, p.max_modules = 2, 2, 3, 1
    if shard.get('variant') == 'nodefaults':
        p.defaults = False
    return p


def roundtrip(c, spec, modname, name, ty, v, codec, ne, rec):
    """The C01 oracle on one (type, value).  Returns Failure or None."""
    def F(kind, msg, e=None):
        feats = sorted(common.type_features(spec, ty, modname)) + ['codec:' + codec]
        return Failure(kind, msg, common.mk_case(spec, modname, name, v, codec=codec, numeric_enums=ne),
                       feats, exc_sig(e) if e is not None else None)
    rec.ev()
    try:
        e = c.encode(name, v, check_types=True, check_constraints=True)
    except NotImplementedError:
        rec.cls('declared-unsupported')
        return None
    except (common.A_EncodeError, common.A_ConstraintsError) as ex:
        # the value did not pass the library's own checks: outside C01 (C11/C12 decide)
        rec.cls('rejected-by-library:' + type(ex).__name__)
        rec.notes['rejected:%s:%s' % exc_sig(ex)] += 1
        return None
    except Exception as ex:
        return F('encode-crash', '%s: %s on value %s' % (type(ex).__name__, ex, common.short(v)), ex)
    try:
        d = c.decode(name, e)
    except Exception as ex:
        return F('decode-own-output', 'decode(%s) raised %s: %s; value %s' % (
            e.hex()[:200], type(ex).__name__, ex, common.short(v)), ex)
    diff = aeq.aeq(spec, ty, modname, v, d, aeq.EqCfg(numeric_enums=ne))
    if diff:
        return F('roundtrip-mismatch', '%s; encoded %s' % (diff, e.hex()[:200]))
    try:
        e2 = c.encode(name, d, check_types=True, check_constraints=True)
    except Exception as ex:
        return F('reencode-rejected', 'decoded value %s not accepted by encoder: %s: %s' % (
            common.short(d), type(ex).__name__, ex), ex)
    if codec in CANONICAL and e2 != e:
        return F('reencode-differs', 'encode(decode(e)) = %s != e = %s' % (e2.hex()[:200], e.hex()[:200]))
    try:
        c.decode(name, e, check_constraints=True)
    except Exception as ex:
        return F('decode-constraints', 'decode(check_constraints=True) of own output raised %s: %s' % (
            type(ex).__name__, ex), ex)
    # non-triviality
    if common.tree_size(spec, ty, modname) >= 2 or (set(common.type_features(spec, ty, modname)) &
                                                     {'range', 'size', 'tagged', 'from', 'default'}):
        if not common.is_empty_value(v):
            rec.nt(codec, ne, name, spec.text(), jsonio.enc(v))
    return None


class C01(Check):
    id = 'C01'
    rule = ('cases = generated module sets (own AST printed to ASN.1) x up to 3 top-level types x up to 4 '
            'constraint-satisfying boundary-biased values x codec in {ber,der,per,uper,oer} x numeric_enums; '
            'non-trivial = type tree has >=2 nodes or carries a constraint/tag/default and the value is not '
            'the empty value; distinct = hash(module text, type, codec, numeric_enums, value)')
    assumptions = ['abstract equality is vlib/aeq.py (absent DEFAULT = default, SET OF multiset, named bits '
                   'modulo trailing zeros, aware datetimes as instants)',
                   'modules the library cannot compile are discarded and counted (outside C01)',
                   'values the library itself rejects (EncodeError/ConstraintsError) are counted, not judged']

    def shards(self, tier):
        out = []
        for codec in CODECS:
            for ne in (False, True):
                out.append({'codec': codec, 'ne': ne, 'big': False})
        for codec in CODECS:
            out.append({'codec': codec, 'ne': False, 'big': tier == 'thorough', 'variant': 'nodefaults'})
        out.append({'codec': 'ber', 'ne': False, 'big': False, 'variant': 'x'})
        return out

    def run_shard(self, shard, tier, seed, rec):
        codec, ne = shard['codec'], shard['ne']
        scale = float(os.environ.get('ASN1V_SCALE', '1'))
        n = int((100 if tier == "quick" else 1500) * scale)
        prof = profile(tier, shard)
        vcfg = values.ValCfg(numeric_enums=ne, big=shard.get('big', False), nan=(codec != 'oer'))
        strat = common.spec_cases(prof, vcfg)

        def body(case, rec):
            spec, items = case
            if not items:
                return
            c = common.compile_spec(spec, codec, ne, rec)
            if c is None:
                return
            rec.cls('modules')
            for modname, name, vals in items:
                ty = dict(spec.by_name[modname].types)[name]
                for k in common.type_features(spec, ty, modname):
                    rec.cls('feat:' + k)
                for v in vals:
                    f = roundtrip(c, spec, modname, name, ty, v, codec, ne, rec)
                    if f is not None:
                        rec.fail(f)
                    elif len(rec.samples) < 2 or rec.evaluations % 97 == 0:
                        rec.sample({'codec': codec, 'numeric_enums': ne, 'type': name,
                                    'module_text': spec.text(), 'value': jsonio.enc(v)})
        hyp_run(strat, body, seed, n, rec, shrink=shard.get('_shrink', False),
                timeout=shard.get('_timeout'))

    def replay(self, case, rec):
        spec, modname, name, ty, v = common.load_case(case)
        codec, ne = case['codec'], case.get('numeric_enums', False)
        c = asn1tools.compile_string(spec.text(), codec, numeric_enums=ne)
        f = roundtrip(c, spec, modname, name, ty, v, codec, ne, rec)
        if f is not None:
            rec.fail(f)


CHECK = C01()
