"""C02 - JER / XER round-trip and well-formedness."""
import json
import xml.dom.minidom
import xml.parsers.expat

from .. import aeq, common, jsonio, values
from ..common import SpecValueCheck

INDENTS = [None, 0, 1, 4]


def strict_json(b):
    def bad_const(c):
        raise ValueError('non-JSON constant %s' % c)
    return json.loads(b.decode('utf-8'), parse_constant=bad_const)


def xml_infoset(b):
    """Parse with expat (minidom) and return a canonical nested structure in which
    white-space-only text between element children is dropped."""
    doc = xml.dom.minidom.parseString(b)

    def conv(el):
        kids = [k for k in el.childNodes]
        elems = [k for k in kids if k.nodeType == k.ELEMENT_NODE]
        text = ''.join(k.data for k in kids if k.nodeType in (k.TEXT_NODE, k.CDATA_SECTION_NODE))
        if elems:
            if text.strip():
                return (el.tagName, 'mixed', text, [conv(k) for k in elems])
            return (el.tagName, [conv(k) for k in elems])
        return (el.tagName, text)
    return conv(doc.documentElement)


def nontrivial_value(v):
    """string with markup-significant char, REAL outside [1e-4, 1e16), empty string/bits, ..."""
    if isinstance(v, str):
        return v == '' or any(c in v for c in '<>&"\'') or v != v.strip() or ']]>' in v
    if isinstance(v, float):
        return v != v or v in (float('inf'), float('-inf')) or (v != 0 and not (1e-4 <= abs(v) < 1e16))
    if isinstance(v, (bytes, bytearray)):
        return len(v) == 0
    if isinstance(v, tuple):
        return any(nontrivial_value(x) for x in v)
    if isinstance(v, list):
        return len(v) == 0 or any(nontrivial_value(x) for x in v) or isinstance(v[0], (bool, tuple)) or v[0] is None
    if isinstance(v, dict):
        return any(nontrivial_value(x) for x in v.values())
    return False


class C02(SpecValueCheck):
    id = 'C02'
    codecs = ['jer', 'xer']
    quick_n = 50
    thorough_n = 1200
    rule = ('cases = generated modules x types x values (XML-1.0-legal characters for XER) x codec in {jer,xer} x '
            'indent in {None,0,1,4} x numeric_enums; evaluation = one encode+parse+decode at one indent; '
            'non-trivial = value holds a string with a markup-significant character or leading/trailing space, '
            'an empty string/octet string/list, a REAL that is non-finite or outside [1e-4,1e16), or a list of '
            'BOOLEAN/NULL/CHOICE/ENUMERATED; distinct = hash(module, type, codec, indent, value)')
    assumptions = ['well-formedness is decided by Python json (strict constants) and expat (xml.dom.minidom)',
                   'entity expansion and encoding declarations are expat concerns']

    def valcfg(self, tier, shard):
        return values.ValCfg(numeric_enums=shard['ne'], big=False, nan=True, neg_zero=True,
                             chars='xml' if shard['codec'] == 'xer' else 'any', dirty_bits=True)

    def oracle(self, x):
        cfg = aeq.EqCfg(numeric_enums=x.ne, exact_real=True)
        base_doc = None
        nt = nontrivial_value(x.v)
        for indent in INDENTS:
            x.rec.ev()
            kw = {} if indent is None else {'indent': indent}
            try:
                e = x.c.encode(x.name, x.v, check_types=True, check_constraints=True, **kw)
            except NotImplementedError:
                x.rec.cls('declared-unsupported')
                return
            except (common.A_EncodeError, common.A_ConstraintsError) as ex:
                x.rec.cls('rejected-by-library:' + type(ex).__name__)
                return
            except Exception as ex:
                x.fail('encode-crash', 'encode(indent=%r) raised %s: %s on %s' % (
                    indent, type(ex).__name__, ex, common.short(x.v)), ex, indent=indent)
                return
            try:
                doc = strict_json(e) if x.codec == 'jer' else xml_infoset(e)
            except (ValueError, xml.parsers.expat.ExpatError, UnicodeDecodeError) as ex:
                x.fail('not-well-formed', 'indent=%r output is not a valid %s document: %s: %s; output %r' % (
                    indent, 'JSON' if x.codec == 'jer' else 'XML', type(ex).__name__, ex, bytes(e)[:200]),
                    indent=indent)
                return
            try:
                d = x.c.decode(x.name, e)
            except Exception as ex:
                x.fail('decode-own-output', 'decode of indent=%r output raised %s: %s; output %r' % (
                    indent, type(ex).__name__, ex, bytes(e)[:200]), ex, indent=indent)
                return
            diff = aeq.aeq(x.spec, x.ty, x.modname, x.v, d, cfg)
            if diff:
                x.fail('roundtrip-mismatch', 'indent=%r: %s; output %r' % (indent, diff, bytes(e)[:200]),
                       indent=indent)
                return
            if indent is None:
                base_doc = doc
                try:
                    x.c.encode(x.name, d, check_types=True, check_constraints=True)
                except Exception as ex:
                    x.fail('reencode-rejected', 'decoded value %s not accepted: %s: %s' % (
                        common.short(d), type(ex).__name__, ex), ex)
                    return
            elif doc != base_doc:
                x.fail('indent-changes-document', 'indent=%r parses to a different document than indent=None: '
                       '%r vs %r' % (indent, str(doc)[:200], str(base_doc)[:200]), indent=indent)
                return
            if nt:
                x.rec.nt(x.codec, x.ne, x.name, x.spec.text(), indent, jsonio.enc(x.v))
        self.sample(x)


CHECK = C02()
