"""C03 - DER output is the unique X.690 distinguished encoding."""
import datetime

from .. import aeq, asn, common, gen, jsonio, values
from ..common import SpecValueCheck, NOVALUE
from ..model import der as dmodel
from ..model import tlv

STRING_TAGS = {3, 4, 12, 18, 19, 20, 21, 22, 23, 24, 25, 26, 27, 28, 30}

VECTORS = [  # (kind, value, expected DER hex) -- X.690 clause 8/11 examples and well-known encodings
    ('BOOLEAN', True, '0101ff'), ('BOOLEAN', False, '010100'),
    ('INTEGER', 0, '020100'), ('INTEGER', 127, '02017f'), ('INTEGER', 128, '02020080'),
    ('INTEGER', 256, '02020100'), ('INTEGER', -128, '020180'), ('INTEGER', -129, '0202ff7f'),
    ('INTEGER', -1, '0201ff'), ('INTEGER', 65535, '020300ffff'),
    ('NULL', None, '0500'),
    ('OBJECT IDENTIFIER', '1.2.840.113549', '06062a864886f70d'), ('OBJECT IDENTIFIER', '2.100.3', '0603813403'),
    ('OBJECT IDENTIFIER', '2.999', '06028837'),
    ('OCTET STRING', b'\x01\x23\x45', '0403012345'),
    ('BIT STRING', (bytes.fromhex('0a3b5f291cd0'), 44), '0307040a3b5f291cd0'),
    ('BIT STRING', (b'', 0), '030100'),
    ('REAL', 0.0, '0900'), ('REAL', float('inf'), '090140'), ('REAL', float('-inf'), '090141'),
    ('REAL', 1.0, '0903800001'), ('REAL', 0.15625, '090380fb05'), ('REAL', -2.0, '0903c00101'),
    ('REAL', 255.0, '09038000ff'), ('REAL', 256.0, '0903800801'),
    ('UTF8String', u'å', '0c02c3a5'), ('IA5String', 'test', '160474657374'),
    ('BMPString', 'a', '1e020061'), ('UniversalString', 'a', '1c0400000061'),
    ('UTCTime', datetime.datetime(1991, 5, 6, 23, 45, 40), '170d3931303530363233343534305a'),
    ('GeneralizedTime', datetime.datetime(1991, 5, 6, 16, 45, 40, 100000), '181131393931303530363136343534302e315a'),
]


def first_difference(a, b, path='/'):
    """first differing TLV path between two DER byte strings (best effort)"""
    try:
        na, _ = tlv.parse(a)
        nb, _ = tlv.parse(b)
    except tlv.TlvError as e:
        return '%s (unparseable: %s)' % (path, e)

    def rec(x, y, p):
        if (x.cls, x.num, x.constructed) != (y.cls, y.num, y.constructed):
            return '%s: tag %s %d%s vs %s %d%s' % (p, x.cls, x.num, 'c' if x.constructed else 'p', y.cls, y.num,
                                                   'c' if y.constructed else 'p')
        if x.children is None or y.children is None:
            if x.content != y.content:
                return '%s: contents %s vs %s' % (p, (x.content or b'').hex()[:60], (y.content or b'').hex()[:60])
            return None
        for i, (cx, cy) in enumerate(zip(x.children, y.children)):
            d = rec(cx, cy, '%s%d/' % (p, i))
            if d:
                return d
        if len(x.children) != len(y.children):
            return '%s: %d vs %d components' % (p, len(x.children), len(y.children))
        return None
    return rec(na, nb, path) or 'length octets differ'


def check_der_shape(data):
    """independent re-read: all bytes consumed, definite minimal lengths, primitive strings"""
    node, end = tlv.parse(data, der=True)
    if end != len(data):
        return 'trailing octets after the value'

    def rec(n):
        if n.cls == 'UNIVERSAL' and n.num in STRING_TAGS and n.constructed:
            return 'constructed string encoding (universal %d)' % n.num
        for c in (n.children or []):
            r = rec(c)
            if r:
                return r
        return None
    return rec(node)


def variants(spec, ty, modname, v, ne):
    """values abstractly equal to v in other Python representations"""
    out = []

    def rev(idx, r, val):
        k = r.base.kind
        if k in ('SEQUENCE', 'SET') and isinstance(val, dict) and len(val) > 1:
            return NOVALUE
        if k == 'SET OF' and isinstance(val, list) and len(val) > 1:
            return NOVALUE
        return NOVALUE
    # 1. reversed dict insertion order and reversed SET OF, bytes -> bytearray, dirty unused bits
    def transform(val, r):
        k = r.base.kind
        if k in ('SEQUENCE', 'SET') and isinstance(val, dict):
            return dict(reversed(list(val.items())))
        return val

    def deep(ty_, mod_, val, mode):
        r = asn.resolve(spec, ty_, mod_)
        b = r.base
        k = b.kind
        if k in ('SEQUENCE', 'SET') and isinstance(val, dict):
            items = []
            for m in b.all_members():
                if m.name in val:
                    if mode == 'defaults' and m.has_default and aeq.aeq(
                            spec, m.ty, r.mod, aeq.default_value(spec, m, r.mod, aeq.EqCfg(numeric_enums=ne)),
                            val[m.name], aeq.EqCfg(numeric_enums=ne)) is None:
                        continue        # remove a member equal to its default
                    items.append((m.name, deep(m.ty, r.mod, val[m.name], mode)))
                elif mode == 'defaults' and m.has_default:
                    items.append((m.name, aeq.default_value(spec, m, r.mod, aeq.EqCfg(numeric_enums=ne))))
            if mode == 'order':
                items.reverse()
            return dict(items)
        if k == 'CHOICE' and isinstance(val, tuple):
            for m in b.all_members():
                if m.name == val[0]:
                    return (val[0], deep(m.ty, r.mod, val[1], mode))
            return val
        if k in ('SEQUENCE OF', 'SET OF') and isinstance(val, list):
            xs = [deep(b.elem, r.mod, x, mode) for x in val]
            if k == 'SET OF' and mode == 'order':
                xs.reverse()
            return xs
        if k == 'OCTET STRING' and mode == 'repr':
            return bytearray(val)
        if k == 'BIT STRING' and isinstance(val, tuple):
            data, n = val
            if mode == 'repr' and n % 8:
                d = bytearray(data)
                d[(n - 1) // 8] |= (0xff >> (n % 8))
                return (bytes(d), n)
            if mode == 'bits' and b.named_bits and (r.size is None or r.size.ext):
                d = bytearray(data)[:(n + 7) // 8]
                if n % 8:
                    d[-1] &= (0xff << (8 - n % 8)) & 0xff
                d += b'\x00'
                return (bytes(d), n + 3)
        return val
    for mode in ('order', 'defaults', 'repr', 'bits'):
        try:
            out.append((mode, deep(ty, modname, v, mode)))
        except Exception:
            pass
    return out


class C03(SpecValueCheck):
    id = 'C03'
    codecs = ['der']
    quick_n = 80
    thorough_n = 2500
    rule = ('cases = generated modules x types x values, codec der; oracle: bytes equal an independent X.690 DER '
            'encoder over the AST (vlib/model/der.py: minimal lengths/integers/tags, REAL 8.5/11.3, named-bit '
            'trimming 11.2.2, DEFAULT omission 11.5, SET in tag order 10.3, SET OF sorted 11.6, restricted times '
            '11.7/11.8); an independent TLV re-read consumes all bytes with definite minimal lengths and primitive '
            'strings; abstractly equal values in other Python representations (member order, SET OF order, explicit '
            'defaults, unused bits, trailing named bits) encode identically; evaluation = one comparison; non-trivial = '
            'encoding contains SET / SET OF with >=2 elements / omitted default / length >= 128 / multi-octet tag / '
            'non-zero REAL / named bits / explicit tag; distinct = hash(module, type, value)')
    assumptions = ['vlib/model/der.py is the reference (self-tested on %d hand-checked vectors at start-up)' % len(VECTORS),
                   'GeneralString/GraphicString/TeletexString characters are single octets (ISO 8859-1 reading)']

    def selftest(self):
        from ..asn import Ty, Module, Spec
        bad = []
        for kind, v, want in VECTORS:
            m = Module('S', '')
            m.types = [('T', Ty(kind))]
            got = dmodel.encode(Spec([m]), m.types[0][1], 'S', v).hex()
            if got != want:
                bad.append((kind, repr(v), got, want))
        if bad:
            from .. import env
            raise env.InfraError('DER model self-test failed: %r' % bad[:3])
        return {'vectors': len(VECTORS), 'agreed': len(VECTORS)}

    def profile(self, tier, shard):
        p = super().profile(tier, shard)
        p.constructed = p.constructed + ['SET', 'SET OF']
        p.kinds = p.kinds + ['REAL', 'BIT STRING']
        # whether a tag is implicit or explicit is decided through whole reference chains and across imports
        p.alias_chain_rate = 35
        p.dup_names_rate = 15
        return p

    def valcfg(self, tier, shard):
        return values.ValCfg(numeric_enums=shard['ne'], big=shard.get('big', False), nan=True, neg_zero=False)

    def oracle(self, x):
        e = x.encode()
        if e is None:
            return
        e = bytes(e)
        x.rec.ev()
        try:
            want = dmodel.encode(x.spec, x.ty, x.modname, x.v, x.ne)
        except dmodel.ModelError as ex:
            x.rec.cls('outside-model:' + str(ex)[:30])
            return
        if e != want:
            x.fail('not-der', 'asn1tools %s != X.690 model %s; first difference %s' % (
                e.hex()[:120], want.hex()[:120], first_difference(e, want)), model=want.hex())
            return
        try:
            shape = check_der_shape(e)
        except tlv.TlvError as ex:
            shape = str(ex)
        if shape:
            x.fail('bad-tlv-shape', 'independent TLV re-read: %s in %s' % (shape, e.hex()[:120]))
            return
        for mode, v2 in variants(x.spec, x.ty, x.modname, x.v, x.ne):
            x.rec.ev()
            try:
                e2 = bytes(x.c.encode(x.name, v2, check_types=True, check_constraints=True))
            except Exception as ex:
                x.rec.cls('variant-rejected:' + mode)
                continue
            if e2 != e:
                x.fail('equal-values-differ', 'variant (%s) %s of the same abstract value encodes to %s, original %s' % (
                    mode, common.short(v2, 120), e2.hex()[:100], e.hex()[:100]), variant=mode)
                return
        feats = x.feats()
        if (set(feats) & {'SET', 'SET OF', 'default', 'bigtag', 'REAL', 'named-bits', 'tagged'}) or len(e) >= 130:
            x.rec.nt(x.name, x.spec.text(), jsonio.enc(x.v))
        self.sample(x, der=e.hex()[:160])


CHECK = C03()
