"""C04 - BER decoder accepts every valid BER serialisation with the same meaning."""
from hypothesis import strategies as st

from .. import aeq, asn, common, gen, jsonio, values
from ..common import SpecValueCheck
from ..model import der as dmodel
from ..model import tlv
from ..model.tlv import Node, enc_tag, enc_len


class Picks(object):
    """deterministic stream of choices taken from Hypothesis-drawn integers"""

    def __init__(self, ints):
        self.ints = ints or [0]
        self.i = 0

    def next(self, n):
        v = self.ints[self.i % len(self.ints)] + self.i // len(self.ints)
        self.i += 1
        return v % n


def segment(content, picks, bitstring, depth):
    """split primitive string contents into universal-tagged segment TLVs (X.690 8.6.4 / 8.7.3)"""
    if bitstring:
        unused, bits = content[0], content[1:]
        pieces = []
        n = 1 + picks.next(3)
        cuts = sorted(set(picks.next(len(bits) + 1) for _ in range(n - 1)))
        prev = 0
        for c in cuts + [len(bits)]:
            pieces.append(bits[prev:c])
            prev = c
        out = []
        for i, p in enumerate(pieces):
            last = (i == len(pieces) - 1)
            body = bytes([unused if last else 0]) + p
            out.append(encode_string_piece(3, body, picks, True, depth, last))
        return b''.join(out)
    n = 1 + picks.next(3)
    cuts = sorted(set(picks.next(len(content) + 1) for _ in range(n - 1)))
    prev = 0
    out = []
    for c in cuts + [len(content)]:
        out.append(encode_string_piece(4, content[prev:c], picks, False, depth, True))
        prev = c
    return b''.join(out)


def encode_string_piece(tagnum, body, picks, bitstring, depth, may_nest):
    if depth < 3 and picks.next(4) == 0 and (not bitstring or may_nest):
        inner = segment(body, picks, bitstring, depth + 1)
        return wrap(enc_tag('UNIVERSAL', tagnum, True), inner, picks, True)
    return wrap(enc_tag('UNIVERSAL', tagnum, False), body, picks, False)


def wrap(tagbytes, body, picks, constructed):
    if constructed and picks.next(3) == 0:
        return tagbytes + b'\x80' + body + b'\x00\x00'
    return tagbytes + enc_len(len(body), pad=[0, 0, 1, 2, 3][picks.next(5)]) + body


def real_variant(content, picks):
    """another valid X.690 8.5.7 binary encoding of the same REAL: mantissa not normalised (N * 2^s, E - s) and/or the
    exponent written in more octets than needed (DER demands the minimal odd-mantissa form, BER does not)"""
    if not content or not (content[0] & 0x80) or (content[0] & 0x3c):
        return content      # special values, decimal forms, other bases: left alone
    first = content[0]
    if first & 3 == 3:
        elen, off = content[1], 2
    else:
        elen, off = (first & 3) + 1, 1
    e = int.from_bytes(content[off:off + elen], 'big', signed=True)
    n = int.from_bytes(content[off + elen:], 'big')
    s = picks.next(4)
    n2, e2 = n << s, e - s
    elen2 = 1
    while not -(1 << (8 * elen2 - 1)) <= e2 < (1 << (8 * elen2 - 1)):
        elen2 += 1
    elen2 += picks.next(2)
    if elen2 > 2:
        return content      # 3-octet / length-prefixed exponents: the library declares them unsupported (not in the list
        #                     of forms the property names)
    eb = e2.to_bytes(elen2, 'big', signed=True)
    nb = n2.to_bytes(max(1, (n2.bit_length() + 7) // 8), 'big')
    return bytes([0x80 | (first & 0x40) | (elen2 - 1)]) + eb + nb


def rewrite(node, picks, stats):
    """serialise the annotated tree in some other valid BER form"""
    if node.kind == 'boolean' and node.content != b'\x00' and picks.next(2):
        # X.690 8.2.2: any non-zero octet is TRUE
        stats.add('boolean-true-nonff')
        c = bytes([[0x01, 0x80, 0x7f, 0xfe, 0x10][picks.next(5)]])
        return enc_tag(node.cls, node.num, False) + enc_len(1) + c
    if node.kind == 'real' and picks.next(2):
        c = real_variant(node.content, picks)
        if c != node.content:
            stats.add('real-not-normalised')
            return enc_tag(node.cls, node.num, False) + enc_len(len(c)) + c
    if node.children is not None:
        kids = list(node.children)
        if node.kind == 'setof' and len(kids) > 1 and picks.next(2):
            # the order of SET OF elements is not significant in BER
            k = picks.next(len(kids))
            kids = kids[k:] + kids[:k]
            stats.add('setof-permuted')
        if node.kind == 'set' and len(kids) > 1 and picks.next(2):
            k = picks.next(len(kids))
            kids = kids[k:] + kids[:k]
            if picks.next(2):
                kids.reverse()
            stats.add('set-permuted')
        body = b''.join(rewrite(c, picks, stats) for c in kids)
        tagb = enc_tag(node.cls, node.num, True)
        if picks.next(3) == 0:
            stats.add('indefinite')
            return tagb + b'\x80' + body + b'\x00\x00'
        pad = [0, 0, 1, 2, 3][picks.next(5)]
        if pad:
            stats.add('padded-length')
        return tagb + enc_len(len(body), pad=pad) + body
    if node.kind in ('string', 'bitstring') and picks.next(3) == 0:
        stats.add('segmented-' + node.kind)
        body = segment(node.content, picks, node.kind == 'bitstring', 1)
        return wrap(enc_tag(node.cls, node.num, True), body, picks, True)
    pad = [0, 0, 0, 1, 2, 3][picks.next(6)]
    if pad:
        stats.add('padded-length')
    return enc_tag(node.cls, node.num, False) + enc_len(len(node.content), pad=pad) + node.content


@st.composite
def pick_lists(draw):
    return draw(st.lists(st.integers(0, 1000), min_size=4, max_size=40))


class C04(SpecValueCheck):
    id = 'C04'
    codecs = ['ber']
    quick_n = 70
    thorough_n = 2500
    rule = ('cases = generated modules x values (codec ber) x 4-5 re-serialisations of the value\'s TLV tree built by an '
            'independent X.690 encoder: each constructed node definite or indefinite+EOC, each length minimal or padded '
            'with 1-3 superfluous octets, each string / BIT STRING primitive or split into nested constructed segments '
            '(depth <= 3), SET components permuted, and mixtures; also, as forms X.690 allows beyond that list: TRUE as any '
            'non-zero octet, SET OF elements permuted, REAL with a non-normalised mantissa / longer exponent, components '
            'equal to their DEFAULT written out; oracle: ber.decode(variant) == value; evaluation = one '
            'variant decoded; non-trivial = variant differs from the DER form; distinct = hash(type, variant bytes)')
    assumptions = ['variants are produced from the annotated tree of vlib/model/der.py (agreement of that model with the '
                   'library\'s DER output is checked by C03)']

    def valcfg(self, tier, shard):
        return values.ValCfg(numeric_enums=shard['ne'], big=shard.get('big', False), nan=True, neg_zero=False)

    def run_shard(self, shard, tier, seed, rec):
        # variant choices are a deterministic function of the case (hash of the value), expanded by a
        # drawn salt that Hypothesis controls through the value itself
        return super().run_shard(shard, tier, seed, rec)

    def oracle(self, x):
        try:
            tree = dmodel.encode_tree(x.spec, x.ty, x.modname, x.v, x.ne)
        except dmodel.ModelError as ex:
            x.rec.cls('outside-model')
            return
        except Exception:
            x.rec.cls('model-domain-error')
            return
        # the value must be acceptable to the library at all (type/constraint checks)
        if x.encode() is None:
            return
        der = tlv.serialize(tree)
        cfg = aeq.EqCfg(numeric_enums=x.ne)
        salt = int(jsonio.h(x.name, der.hex()), 16)
        tree_d = None
        for k in range(5):
            picks = Picks([(salt >> (7 * i + k)) & 0x3ff for i in range(12)])
            stats = set()
            t = tree
            if k == 4:
                # components equal to their DEFAULT written out (allowed in BER, X.690 8.9.2 NOTE / 11.5 is DER only)
                if tree_d is None:
                    try:
                        tree_d = dmodel.encode_tree(x.spec, x.ty, x.modname, x.v, x.ne, explicit_defaults=True)
                    except Exception:
                        break
                if tlv.serialize(tree_d) == der:
                    break
                t = tree_d
                stats.add('defaults-present')
            variant = rewrite(t, picks, stats)
            x.rec.ev()
            try:
                tlv.parse(variant)
            except tlv.TlvError as ex:
                raise RuntimeError('harness produced invalid BER: %s' % ex)
            try:
                d = x.c.decode(x.name, variant)
            except Exception as ex:
                x.fail('valid-ber-rejected', 'decode of a valid BER form (%s) raised %s: %s; variant %s, DER %s' % (
                    sorted(stats), type(ex).__name__, str(ex)[:150], variant.hex()[:160], der.hex()[:120]), ex,
                    variant=variant.hex(), rewrites=sorted(stats))
                return
            diff = aeq.aeq(x.spec, x.ty, x.modname, x.v, d, cfg)
            if diff:
                x.fail('valid-ber-misread', 'decode of a valid BER form (%s) gives a different value: %s; variant %s' % (
                    sorted(stats), diff, variant.hex()[:160]), variant=variant.hex(), rewrites=sorted(stats))
                return
            for s_ in stats:
                x.rec.cls('rewrite:' + s_)
            if variant != der:
                x.rec.nt(x.name, variant.hex())
        self.sample(x, der=der.hex()[:120], variant=variant.hex()[:160])

    def replay_oracle(self, x, case):
        if 'variant' not in case:
            return self.oracle(x)
        variant = bytes.fromhex(case['variant'])
        try:
            d = x.c.decode(x.name, variant)
        except Exception as ex:
            x.fail('valid-ber-rejected', 'decode raised %s: %s' % (type(ex).__name__, ex), ex, variant=case['variant'])
            return
        diff = aeq.aeq(x.spec, x.ty, x.modname, x.v, d, aeq.EqCfg(numeric_enums=x.ne))
        if diff:
            x.fail('valid-ber-misread', diff, variant=case['variant'])


CHECK = C04()
