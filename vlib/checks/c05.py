"""C05 - PER and UPER encodings are bit-exact X.691."""
from .. import aeq, asn, common, gen, jsonio, values
from ..common import SpecValueCheck
from ..model import per as pmodel

PER_KINDS = ['BOOLEAN', 'INTEGER', 'ENUMERATED', 'NULL', 'BIT STRING', 'OCTET STRING', 'NumericString',
             'PrintableString', 'VisibleString', 'IA5String', 'BMPString', 'UniversalString', 'UTF8String',
             'OBJECT IDENTIFIER', 'REAL']

# (text, type, value, codec, expected hex): X.691 Annex A.2-style and textbook examples checked by hand
VECTORS = [
    ('A ::= BOOLEAN', 'A', True, 'uper', '80'),
    ('A ::= INTEGER (0..7)', 'A', 5, 'uper', 'a0'),
    ('A ::= INTEGER (1..256)', 'A', 256, 'per', 'ff'),
    ('A ::= INTEGER (0..65535)', 'A', 258, 'per', '0102'),
    ('A ::= INTEGER (0..65536)', 'A', 256, 'per', '400100'),
    ('A ::= INTEGER', 'A', 4096, 'uper', '021000'),
    ('A ::= INTEGER', 'A', -1, 'per', '01ff'),
    ('A ::= INTEGER (1..MAX)', 'A', 1, 'uper', '0100'),
    ('A ::= INTEGER (0..7, ...)', 'A', 9, 'uper', '808480'),
    ('A ::= ENUMERATED { c(5), a(0), b(2) }', 'A', 'c', 'uper', '80'),
    ('A ::= IA5String', 'A', 'ab', 'uper', '02c3c4'.replace('c3c4', 'c3' + '88')),
    ('A ::= NumericString (SIZE(3))', 'A', '1 9', 'uper', '20a0'),
    ('A ::= OCTET STRING (SIZE(2))', 'A', b'\x12\x34', 'per', '1234'),
    ('A ::= SEQUENCE { a BOOLEAN OPTIONAL, b INTEGER (0..3) }', 'A', {'b': 2}, 'uper', '40'),
    ('A ::= SEQUENCE { a BOOLEAN, ..., b BOOLEAN }', 'A', {'a': True, 'b': True}, 'uper', 'c0c0200'.ljust(8, '0')[:8]),
    ('A ::= CHOICE { a BOOLEAN, b NULL }', 'A', ('b', None), 'uper', '80'),
    ('A ::= SEQUENCE OF BOOLEAN', 'A', [True, False, True], 'uper', '03a0'),
    # 30.5.6 / 30.5.7 alignment thresholds of known-multiplier strings in the ALIGNED variant (b = 8 for IA5String):
    # fixed size is octet-aligned above 16 bits, variable size from 16 bits on
    ('A ::= IA5String (SIZE(2))', 'A', 'ab', 'per', '6162'),
    ('A ::= IA5String (SIZE(1..2))', 'A', 'o', 'per', '006f'),
    ('A ::= NumericString (SIZE(1..3))', 'A', '12', 'per', '48c0'),
]


class C05(SpecValueCheck):
    id = 'C05'
    codecs = ['uper', 'per']
    quick_n = 70
    thorough_n = 2500
    rule = ('cases = generated modules over the PER-visible subset (BOOLEAN, INTEGER, ENUMERATED, NULL, BIT/OCTET STRING, '
            'known-multiplier strings with FROM, UTF8String, OBJECT IDENTIFIER, REAL, SEQUENCE, SET, CHOICE, SEQUENCE/SET '
            'OF; constrained / semi-constrained / unconstrained / extensible shapes) x boundary-biased values x {uper, per}; '
            'oracle: library bytes == independent X.691 model bytes (vlib/model/per.py) and library.decode(model bytes) == '
            'value; evaluation = one comparison; non-trivial = encoding of >= 9 bits involving a length determinant, '
            'extension bit, preamble bit or non-byte-aligned field; distinct = hash(module, type, codec, value)')
    assumptions = ['vlib/model/per.py is the reference (X.691 clauses 10-23, 30; self-tested on hand-checked vectors at '
                   'start-up)', 'ALIGNED: zero-length values of variable-size octet-aligned fields are excluded and counted '
                   '(alignment of an empty field is not reconstructed from memory)',
                   'DATE / TIME-OF-DAY / DATE-TIME (X.691 clause 32) are outside the model']

    def selftest(self):
        from ..common import asn1tools
        from .. import env
        bad = []
        n = 0
        for text, name, v, codec, want in VECTORS:
            # build the AST through the generator-free path: tiny hand-written AST per vector
            t = VECTOR_AST.get(text)
            if t is None:
                continue
            n += 1
            got = pmodel.encode(t[0], t[1], 'S', v, codec == 'per').hex()
            if got != want:
                bad.append((text, repr(v), codec, got, want))
        if bad:
            raise env.InfraError('PER model self-test failed: %r' % bad[:4])
        return {'vectors': n, 'agreed': n}

    def profile(self, tier, shard):
        p = super().profile(tier, shard)
        p.kinds = list(PER_KINDS) + ['INTEGER'] * 3 + ['IA5String', 'BIT STRING', 'OCTET STRING']
        p.real_wc = False
        p.very_wide_additions = True
        p.stack_rate = 25
        p.root2 = True
        p.choice_tags_ascending_rate = 85
        return p

    def directed(self, tier, shard):
        """boundaries of X.691's length / index forms that random modules reach too rarely: the number of extension
        additions around 64 (normally small length, 11.9), ENUMERATED / CHOICE extension indices around 64
        (normally small number, 11.6), ranges around one and two octets"""
        from ..asn import Ty, Member, Module, Spec, Rng
        m = Module('M', 'AUTOMATIC')
        items = []
        for n in (1, 2, 7, 8, 9, 63, 64, 65, 66) + ((127, 128) if tier == 'thorough' else ()):
            adds = [Member('m%d' % i, Ty('BOOLEAN'), optional=True) for i in range(n)]
            name = 'S%d' % n
            m.types.append((name, Ty('SEQUENCE', root=[Member('a', Ty('BOOLEAN'))], ext=adds)))
            vals = [{'a': True, 'm%d' % (n - 1): True}, {'a': False, 'm0': False},
                    dict([('a', True)] + [('m%d' % i, i % 2 == 0) for i in range(n)])]
            items.append((name, vals))
        names = ['e%d' % i for i in range(70)]
        m.types.append(('E', Ty('ENUMERATED', enum_root=[('r0', 0, False)],
                                enum_ext=[(nm, i + 1, False) for i, nm in enumerate(names)])))
        items.append(('E', ['r0', 'e0', 'e62', 'e63', 'e64', 'e65', 'e69']))
        m.types.append(('C', Ty('CHOICE', root=[Member('r0', Ty('BOOLEAN'))],
                                ext=[Member(nm, Ty('BOOLEAN')) for nm in names])))
        items.append(('C', [('r0', True), ('e0', True), ('e62', False), ('e63', True), ('e64', True), ('e65', False)]))
        for i, (lo, hi) in enumerate([(0, 254), (0, 255), (0, 256), (1, 256), (0, 65535), (0, 65536), (-1, 65534),
                                      (0, 2 ** 32 - 1), (0, 2 ** 32), (-2 ** 63, 2 ** 63 - 1), (0, 2 ** 64)]):
            name = 'I%d' % i
            m.types.append((name, Ty('INTEGER', rng=Rng(lo, hi))))
            items.append((name, sorted(set([lo, hi, lo + 1, hi - 1, (lo + hi) // 2, min(hi, lo + 255),
                                            min(hi, lo + 256), min(hi, lo + 65536)]))))
        # serial application through references: a huge / two-octet / one-octet parent range narrowed to each of the
        # smaller encoding classes (top level and as members), and a large parent SIZE narrowed at a member
        m.types.append(('Big', Ty('INTEGER', rng=Rng(0, 2 ** 32 - 1))))
        m.types.append(('W16', Ty('INTEGER', rng=Rng(0, 65535))))
        m.types.append(('Neg', Ty('INTEGER', rng=Rng(-2 ** 40, 2 ** 40))))
        narrow = [('Big', 0, 7), ('Big', 10, 20), ('Big', 0, 255), ('Big', 1, 256), ('Big', 0, 65535), ('Big', 1, 65536),
                  ('Big', 5, 5), ('W16', 0, 255), ('W16', 0, 7), ('W16', 256, 511), ('Neg', -5, 5), ('Neg', -70000, 70000)]
        mems = [Member('pad', Ty('BOOLEAN'))]
        for i, (parent, lo, hi) in enumerate(narrow):
            name = 'N%d' % i
            m.types.append((name, Ty('REF', ref=parent, rng=Rng(lo, hi))))
            items.append((name, sorted(set([lo, hi, (lo + hi) // 2, min(hi, lo + 1)]))))
            mems.append(Member('n%d' % i, Ty('REF', ref=parent, rng=Rng(lo, hi))))
        m.types.append(('NS', Ty('SEQUENCE', root=mems)))
        items.append(('NS', [dict([('pad', True)] + [('n%d' % i, lo) for i, (_, lo, hi) in enumerate(narrow)]),
                             dict([('pad', False)] + [('n%d' % i, hi) for i, (_, lo, hi) in enumerate(narrow)])]))
        m.types.append(('St', Ty('IA5String', size=Rng(0, 70000))))
        m.types.append(('Oc', Ty('OCTET STRING', size=Rng(0, 65536))))
        m.types.append(('SS', Ty('SEQUENCE', root=[Member('pad', Ty('BOOLEAN')),
                                                    Member('s', Ty('REF', ref='St', size=Rng(0, 10))),
                                                    Member('o', Ty('REF', ref='Oc', size=Rng(2, 2))),
                                                    Member('t', Ty('REF', ref='St', size=Rng(1, 300)))])))
        items.append(('SS', [{'pad': True, 's': 'abc', 'o': b'\x01\x02', 't': 'x' * 300},
                             {'pad': False, 's': 'abcdefghij', 'o': b'\xff\xfe', 't': 'y'}]))
        spec = Spec([m])
        if shard['ne']:
            for it in items:
                if it[0] == 'E':
                    items[items.index(it)] = ('E', [0, 1, 63, 64, 65, 66, 70])
        return [(spec, [('M', name, vals)]) for name, vals in items]

    def valcfg(self, tier, shard):
        return values.ValCfg(numeric_enums=shard['ne'], big=shard.get('big', False), nan=True, neg_zero=False,
                             max_len=40)

    def aligned_zero_length(self, x):
        """ALIGNED exclusion: an empty value of a variable-size aligned field somewhere in the value"""
        for n in common.walk_values(x.spec, x.ty, x.modname, x.v):
            k = n.r.base.kind
            v = n.value
            if k in ('OCTET STRING', 'UTF8String') or k in asn.STRING_KINDS:
                if hasattr(v, '__len__') and len(v) == 0:
                    return True
            if k == 'BIT STRING' and isinstance(v, tuple) and v[1] == 0:
                return True
        return False

    def oracle(self, x):
        aligned = (x.codec == 'per')
        if aligned and self.aligned_zero_length(x):
            x.rec.cls('excluded:aligned-zero-length')
            return
        e = x.encode()
        if e is None:
            return
        e = bytes(e)
        x.rec.ev()
        try:
            nbits, raw = pmodel.encode_bits(x.spec, x.ty, x.modname, x.v, aligned, x.ne)
        except pmodel.OutOfModel as ex:
            x.rec.cls('outside-model:' + str(ex)[:30])
            return
        want = raw if raw else b'\x00'
        x.extra['zero_bits'] = (nbits == 0)
        if e != want:
            x.fail('not-x691', '%s: asn1tools %s (%d bytes) != X.691 model %s (%d bits)' % (
                x.codec, e.hex()[:100], len(e), want.hex()[:100], nbits), model=want.hex(), model_bits=nbits)
            return
        try:
            d = x.c.decode(x.name, want)
        except Exception as ex:
            x.fail('model-bits-rejected', 'decode of the X.691 bits %s raised %s: %s' % (
                want.hex()[:100], type(ex).__name__, ex), ex, model=want.hex())
            return
        diff = aeq.aeq(x.spec, x.ty, x.modname, x.v, d, aeq.EqCfg(numeric_enums=x.ne))
        if diff:
            x.fail('model-bits-misread', 'decode(%s): %s' % (want.hex()[:100], diff), model=want.hex())
            return
        feats = set(x.feats())
        if nbits >= 9 and feats & {'optional', 'default', 'ext', 'size', 'range', 'CHOICE', 'ENUMERATED',
                                   'SEQUENCE OF', 'SET OF', 'from'}:
            x.rec.nt(x.codec, x.name, x.spec.text(), jsonio.enc(x.v))
        self.sample(x, encoded=e.hex()[:120], bits=nbits)


def _vector_asts():
    from ..asn import Ty, Member, Module, Spec, Rng

    def mk(t):
        m = Module('S', 'AUTOMATIC')
        m.types = [('A', t)]
        return (Spec([m]), t)
    B, I = Ty('BOOLEAN'), lambda **k: Ty('INTEGER', **k)
    return {
        'A ::= BOOLEAN': mk(Ty('BOOLEAN')),
        'A ::= INTEGER (0..7)': mk(I(rng=Rng(0, 7))),
        'A ::= INTEGER (1..256)': mk(I(rng=Rng(1, 256))),
        'A ::= INTEGER (0..65535)': mk(I(rng=Rng(0, 65535))),
        'A ::= INTEGER (0..65536)': mk(I(rng=Rng(0, 65536))),
        'A ::= INTEGER': mk(I()),
        'A ::= INTEGER (1..MAX)': mk(I(rng=Rng(1, None))),
        'A ::= INTEGER (0..7, ...)': mk(I(rng=Rng(0, 7, True))),
        'A ::= ENUMERATED { c(5), a(0), b(2) }': mk(Ty('ENUMERATED', enum_root=[('c', 5, True), ('a', 0, True), ('b', 2, True)])),
        'A ::= NumericString (SIZE(3))': mk(Ty('NumericString', size=Rng(3, 3))),
        'A ::= OCTET STRING (SIZE(2))': mk(Ty('OCTET STRING', size=Rng(2, 2))),
        'A ::= SEQUENCE { a BOOLEAN OPTIONAL, b INTEGER (0..3) }': mk(Ty('SEQUENCE', root=[
            Member('a', Ty('BOOLEAN'), optional=True), Member('b', I(rng=Rng(0, 3)))])),
        'A ::= CHOICE { a BOOLEAN, b NULL }': mk(Ty('CHOICE', root=[Member('a', Ty('BOOLEAN')), Member('b', Ty('NULL'))])),
        'A ::= SEQUENCE OF BOOLEAN': mk(Ty('SEQUENCE OF', elem=Ty('BOOLEAN'))),
        'A ::= IA5String (SIZE(2))': mk(Ty('IA5String', size=Rng(2, 2))),
        'A ::= IA5String (SIZE(1..2))': mk(Ty('IA5String', size=Rng(1, 2))),
        'A ::= NumericString (SIZE(1..3))': mk(Ty('NumericString', size=Rng(1, 3))),
    }


VECTOR_AST = _vector_asts()
CHECK = C05()
