"""C06 - OER encodings are byte-exact X.696."""
from .. import aeq, asn, common, gen, jsonio, values
from ..common import SpecValueCheck
from ..model import oer as omodel
from .c05 import PER_KINDS


class C06(SpecValueCheck):
    id = 'C06'
    codecs = ['oer']
    quick_n = 70
    thorough_n = 2500
    rule = ('cases = generated modules over the C05 subset plus REAL WITH COMPONENTS binary32/64 x boundary-biased '
            'values (integers on both sides of every fixed-width threshold, extensible constraints, enumeration values '
            '<0 / 127 / 128 / >32767, fixed and ranged SIZE, 0-17 optionals and additions, groups, CHOICE tags of all '
            'classes up to 2^21), codec oer; oracle: library bytes == independent X.696 model bytes '
            '(vlib/model/oer.py) and library.decode(model bytes) == value; evaluation = one comparison; non-trivial = '
            'encoding has a preamble, length/quantity field, CHOICE tag or a fixed-width integer wider than 1 octet; '
            'distinct = hash(module, type, value)')
    assumptions = ['vlib/model/oer.py is the reference (X.696 clauses 8-29; self-tested on hand-checked vectors)',
                   'BIT STRING values are generated with zero unused bits (presence of a DEFAULT-valued component is a '
                   'sender option in BASIC-OER; the model omits it like the library does for clean values)',
                   'UTCTime/GeneralizedTime/DATE/TIME-OF-DAY/DATE-TIME are outside the model (no single prescribed form / '
                   'X.696 TIME clauses not reconstructed)']

    VECTORS = None

    def selftest(self):
        from ..asn import Ty, Member, Module, Spec, Rng, Tag
        from .. import env

        def enc(t, v, tagdefault='AUTOMATIC'):
            m = Module('S', tagdefault)
            m.types = [('A', t)]
            return omodel.encode(Spec([m]), t, 'S', v).hex()
        I = lambda lo, hi, ext=False: Ty('INTEGER', rng=Rng(lo, hi, ext))
        vec = [
            (Ty('BOOLEAN'), True, 'ff'), (I(0, 255), 5, '05'), (I(0, 256), 5, '0005'), (I(0, 65536), 1, '00000001'),
            (I(-128, 127), -1, 'ff'), (I(-129, 127), -1, 'ffff'), (Ty('INTEGER'), 128, '020080'),
            (Ty('INTEGER'), -1, '01ff'), (I(0, None), 256, '020100'), (I(0, 7, True), -1, '01ff'),
            (Ty('ENUMERATED', enum_root=[('a', 127, True), ('b', 128, True), ('c', -1, True)]), 'a', '7f'),
            (Ty('ENUMERATED', enum_root=[('a', 127, True), ('b', 128, True), ('c', -1, True)]), 'b', '820080'),
            (Ty('ENUMERATED', enum_root=[('a', 127, True), ('b', 128, True), ('c', -1, True)]), 'c', '81ff'),
            (Ty('OCTET STRING', size=Rng(2, 2)), b'\x01\x02', '0102'), (Ty('OCTET STRING'), b'\x01\x02', '020102'),
            (Ty('BIT STRING'), (b'\xa0', 3), '0205a0'), (Ty('BIT STRING', size=Rng(3, 3)), (b'\xa0', 3), 'a0'),
            (Ty('SEQUENCE OF', elem=Ty('BOOLEAN')), [True, False], '0102ff00'),
            (Ty('SEQUENCE', root=[Member('a', Ty('BOOLEAN'), optional=True), Member('b', I(0, 255))]), {'b': 1}, '0001'),
            (Ty('SEQUENCE', root=[Member('a', Ty('BOOLEAN'))], ext=[Member('b', Ty('BOOLEAN'))]),
             {'a': True, 'b': False}, '80ff0207800100'),
            (Ty('CHOICE', root=[Member('a', Ty('BOOLEAN')), Member('b', Ty('NULL'))]), ('b', None), '81'),
            (Ty('IA5String', size=Rng(2, 2)), 'ab', '6162'), (Ty('UTF8String', size=Rng(2, 2)), 'ab', '026162'),
            (Ty('BMPString', size=Rng(1, 1)), 'a', '0061'),
        ]
        bad = [(v, enc(t, v), want) for t, v, want in vec if enc(t, v) != want]
        if bad:
            raise env.InfraError('OER model self-test failed: %r' % bad[:4])
        return {'vectors': len(vec), 'agreed': len(vec)}

    def profile(self, tier, shard):
        p = super().profile(tier, shard)
        p.kinds = [k for k in PER_KINDS] + ['INTEGER'] * 4 + ['ENUMERATED', 'REAL', 'BIT STRING', 'OCTET STRING',
                                                             'GraphicString', 'GeneralString', 'TeletexString']
        p.real_wc = True
        p.real_wc_near = True
        p.stack_rate = 20
        p.root2 = True
        return p

    def valcfg(self, tier, shard):
        # BIT STRINGs without named bits carry garbage in the unused bits of the last octet (X.696 13: written as zero);
        # named-bit strings are kept clean: whether a DEFAULT-valued component is encoded is a sender's option in
        # BASIC-OER, and the library only recognises a default BIT STRING when its unused bits are zero
        return values.ValCfg(numeric_enums=shard['ne'], big=shard.get('big', False), nan=False, neg_zero=False,
                             max_len=40, dirty_bits='unnamed')

    def default_modulo_trailing_bits(self, x):
        """a DEFAULT member of a named-bit BIT STRING type whose value ends in a zero bit: it may equal the default only
        modulo trailing zero bits, and whether such a component is written is the sender's option in BASIC-OER (the
        library writes it unless the bit count also agrees)"""
        for n in common.walk_values(x.spec, x.ty, x.modname, x.v):
            if n.member is not None and n.member.has_default and n.r.base.kind == 'BIT STRING' \
                    and isinstance(n.value, tuple):
                data, nbits = n.value
                if n.r.base.named_bits and nbits > 0 and not (data[(nbits - 1) // 8] >> (7 - (nbits - 1) % 8)) & 1:
                    return True
                # garbage in the unused bits of the last octet (or octets beyond it): the library compares with the
                # default before it cleans the value, so an equal value is written - the sender's option again
                if len(data) > (nbits + 7) // 8 or (nbits % 8 and data[(nbits - 1) // 8] & (0xff >> (nbits % 8))):
                    return True
        return False

    def oracle(self, x):
        e = x.encode()
        if e is None:
            return
        if self.default_modulo_trailing_bits(x):
            x.rec.cls('excluded:default-bit-string-not-normalised(sender-option)')
            return
        e = bytes(e)
        x.rec.ev()
        try:
            want = omodel.encode(x.spec, x.ty, x.modname, x.v, x.ne)
        except (omodel.OutOfModel, OverflowError, struct_error) as ex:
            x.rec.cls('outside-model:' + str(ex)[:30])
            return
        if e != want:
            x.fail('not-x696', 'asn1tools %s != X.696 model %s' % (e.hex()[:120], want.hex()[:120]), model=want.hex())
            return
        if want:
            try:
                d = x.c.decode(x.name, want)
            except Exception as ex:
                x.fail('model-bytes-rejected', 'decode of the X.696 octets %s raised %s: %s' % (
                    want.hex()[:100], type(ex).__name__, ex), ex, model=want.hex())
                return
            diff = aeq.aeq(x.spec, x.ty, x.modname, x.v, d, aeq.EqCfg(numeric_enums=x.ne))
            if diff:
                x.fail('model-bytes-misread', 'decode(%s): %s' % (want.hex()[:100], diff), model=want.hex())
                return
        feats = set(x.feats())
        if len(e) > 1 and feats & {'optional', 'default', 'ext', 'size', 'range', 'CHOICE', 'ENUMERATED', 'SEQUENCE OF',
                                   'SET OF', 'BIT STRING', 'OCTET STRING'}:
            x.rec.nt(x.name, x.spec.text(), jsonio.enc(x.v))
        self.sample(x, encoded=e.hex()[:120])


import struct as _struct
struct_error = _struct.error
CHECK = C06()
