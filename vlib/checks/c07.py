"""C07 - extension additions keep old and new versions of a type interoperable."""
import os

from hypothesis import strategies as st

from .. import aeq, asn, common, evolve, gen, jsonio, values
from ..common import asn1tools
from ..runner import Check, Failure, exc_sig, hyp_run, watchdog, CaseHang
from .c13 import outcome

CODECS = ['ber', 'der', 'per', 'uper', 'oer', 'jer', 'xer']


def profile():
    p = gen.Profile(max_types=4, max_depth=3, ext_implied=True, root2=False)
    # weight extensible constructs, SET in particular (its components are re-ordered by tag)
    p.ext_rate = 70
    p.constructed = p.constructed + ['SET', 'SET', 'SEQUENCE', 'CHOICE']
    return p


@st.composite
def cases(draw):
    prof = profile()
    spec1 = draw(gen.specs(prof))
    spec2, log = evolve.evolve(draw, spec1, prof)
    tops1 = {(m.name, n) for m, n, t in spec1.top_types()}
    tops = [(m.name, n, t) for m, n, t in spec2.top_types() if (m.name, n) in tops1]
    items = []
    if tops:
        k = draw(st.integers(1, min(3, len(tops))))
        idx = draw(st.lists(st.integers(0, len(tops) - 1), min_size=1, max_size=k, unique=True))
        cfg = values.ValCfg(max_len=10, max_depth=3, chars='xml')
        vg2 = values.VG(draw, spec2, cfg)
        vg1 = values.VG(draw, spec1, cfg)
        for i in idx:
            modname, name, t2 = tops[i]
            t1 = dict(spec1.by_name[modname].types)[name]
            v2s = [vg2.value(t2, modname) for _ in range(3)]
            v1s = [vg1.value(t1, modname) for _ in range(2)]
            items.append((modname, name, v2s, v1s))
    return spec1, spec2, log, items


class C07(Check):
    id = 'C07'
    rule = ('pairs = generated V1 module set and V2 = V1 after 1-5 legal extension steps at random extensible nodes '
            '(new SEQUENCE/SET addition or [[group]], new CHOICE alternative, new ENUMERATED item, additional '
            'extensible INTEGER range) x 3 V2 values + 2 V1 values per type x codec in {ber,der,per,uper,oer,jer,xer}; '
            'oracle: V1.decode(V2.encode(v2)) == V1-projection of v2 and V2.decode(V1.encode(v1)) == v1; evaluation = '
            'one cross decode; non-trivial = v2 uses a construct unknown to V1 and a component known to V1 is also '
            'present; distinct = hash(V1 text, V2 text, type, codec, value)')
    assumptions = ['projection: unknown members dropped, unknown alternative -> (None, None), unknown enumeration item '
                   '-> None (the results the library documents as absent)',
                   'trailing root components after a second marker are not generated here (see DESIGN C03 scope note)']

    def shards(self, tier):
        return [{'i': i} for i in range(16)] + [{'i': 16, 'directed': 0}]

    def directed_pair(self):
        """V1 / V2 by construction: every kind of extension step at nodes that sit off an octet boundary, inside lists,
        CHOICEs and SETs, each followed by more components (so that a mis-skipped addition shows in what follows)"""
        import copy
        from ..asn import Ty, Member, Group, Module, Spec, Rng
        R = lambda n: Ty('REF', ref=n)
        m = Module('M', 'AUTOMATIC')
        m.types = [
            ('Cx', Ty('CHOICE', root=[Member('a', Ty('INTEGER', rng=Rng(0, 7))), Member('b', Ty('BOOLEAN'))], ext=[])),
            ('E', Ty('ENUMERATED', enum_root=[('r', 0, False), ('g', 1, False)], enum_ext=[])),
            ('It', Ty('SEQUENCE', root=[Member('f', Ty('BOOLEAN')), Member('c', R('Cx')), Member('e', R('E')),
                                        Member('n', Ty('INTEGER', rng=Rng(0, 255)))], ext=[])),
            ('L', Ty('SEQUENCE OF', elem=R('It'), size=Rng(1, 4))),
            ('St', Ty('SET', root=[Member('p', Ty('BOOLEAN')), Member('q', R('Cx'), optional=True)], ext=[])),
            ('Lc', Ty('SEQUENCE OF', elem=R('Cx'), size=Rng(1, 4))),
            ('T', Ty('SEQUENCE', root=[Member('head', Ty('BOOLEAN')), Member('l', R('L')), Member('lc', R('Lc')),
                                       Member('s', R('St')), Member('tail', Ty('INTEGER', rng=Rng(0, 7)))])),
        ]
        spec1 = Spec([m])
        spec2 = copy.deepcopy(spec1)
        t2 = dict(spec2.modules[0].types)
        t2['Cx'].ext = [Member('c2', Ty('IA5String')), Member('c3', Ty('SEQUENCE', root=[Member('x', Ty('INTEGER'))]))]
        t2['E'].enum_ext = [('bl', 2, False)]
        t2['It'].ext = [Member('z', Ty('OCTET STRING'), optional=True),
                        Group([Member('g1', Ty('BOOLEAN')), Member('g2', Ty('INTEGER'), optional=True)])]
        t2['St'].ext = [Member('r2', Ty('INTEGER'))]
        spec1.link()
        spec2.link()
        it = lambda c, e, **kw: dict({'f': True, 'c': c, 'e': e, 'n': 200}, **kw)
        v2s = [
            {'head': True, 'l': [it(('a', 3), 'r'), it(('c2', 'hello'), 'bl', z=b'\x01\x02', g1=True, g2=-5), it(('a', 3), 'g')],
             'lc': [('b', True), ('c2', 'x'), ('a', 3), ('c3', {'x': 70000})], 's': {'p': True, 'q': ('c3', {'x': 1}), 'r2': 9},
             'tail': 5},
            {'head': False, 'l': [it(('c3', {'x': -1}), 'g', g1=False)], 'lc': [('c2', ''), ('a', 7)],
             's': {'p': False, 'r2': -300}, 'tail': 0},
            {'head': True, 'l': [it(('b', False), 'bl')], 'lc': [('a', 1)], 's': {'p': True, 'q': ('a', 2), 'r2': 0}, 'tail': 7},
        ]
        v1s = [{'head': True, 'l': [it(('a', 3), 'r'), it(('b', True), 'g')], 'lc': [('a', 0), ('b', False)],
                's': {'p': True, 'q': ('b', True)}, 'tail': 5},
               {'head': False, 'l': [it(('a', 7), 'g')], 'lc': [('b', True)], 's': {'p': False}, 'tail': 1}]
        return spec1, spec2, ['directed'], [('M', 'T', v2s, v1s)]

    def cross(self, rec, spec1, spec2, c1, c2, codec, modname, name, v2s, v1s, log):
        t1 = dict(spec1.by_name[modname].types)[name]
        t2 = dict(spec2.by_name[modname].types)[name]
        cfg = aeq.EqCfg()
        base = {'spec': jsonio.spec_enc(spec1), 'text': spec1.texts(), 'spec2': jsonio.spec_enc(spec2),
                'text2': spec2.texts(), 'steps': log, 'codec': codec, 'module': modname, 'type': name}
        for v2 in v2s:
            rec.ev()
            e = outcome(c2.encode, name, v2, check_types=True, check_constraints=True)
            if e[0] != 'ok':
                rec.cls('v2-not-encodable:' + e[1])
                continue
            want = evolve.project(spec1, t1, modname, v2)
            case = dict(base, value=jsonio.enc(v2), direction='v2->v1')
            try:
                with watchdog(20):
                    d = outcome(c1.decode, name, e[1])
            except CaseHang:
                rec.fail(Failure('hang', 'V1 decode of a V2 encoding did not return', case, ['codec:' + codec]))
                continue
            if d[0] != 'ok':
                rec.fail(Failure('v1-rejects-v2', 'V1.decode(V2.encode(%s)) raised %s: %s (steps %s, bytes %s)' % (
                    common.short(v2, 150), d[1], d[2][:150], log, bytes(e[1]).hex()[:80]), case,
                    ['codec:' + codec] + [s.split('@')[0] for s in log]))
                continue
            diff = aeq.aeq(spec1, t1, modname, want, d[1], cfg)
            if diff:
                rec.fail(Failure('v1-misreads-v2', 'V1.decode(V2.encode(v2)) != projection: %s (steps %s)' % (diff, log),
                                 case, ['codec:' + codec] + [s.split('@')[0] for s in log]))
                continue
            unk, after = evolve.uses_unknown(spec1, t1, modname, v2)
            rec.cls('v2->v1:' + ('unknown-used' if unk else 'only-known'))
            if unk and after:
                rec.nt(spec1.text(), spec2.text(), name, codec, jsonio.enc(v2))
        for v1 in v1s:
            rec.ev()
            e = outcome(c1.encode, name, v1, check_types=True, check_constraints=True)
            if e[0] != 'ok':
                rec.cls('v1-not-encodable:' + e[1])
                continue
            case = dict(base, value=jsonio.enc(v1), direction='v1->v2')
            try:
                with watchdog(20):
                    d = outcome(c2.decode, name, e[1])
            except CaseHang:
                rec.fail(Failure('hang', 'V2 decode of a V1 encoding did not return', case, ['codec:' + codec]))
                continue
            if d[0] != 'ok':
                rec.fail(Failure('v2-rejects-v1', 'V2.decode(V1.encode(%s)) raised %s: %s (steps %s)' % (
                    common.short(v1, 150), d[1], d[2][:150], log), case, ['codec:' + codec]))
                continue
            diff = aeq.aeq(spec2, t2, modname, v1, d[1], cfg)
            if diff:
                rec.fail(Failure('v2-misreads-v1', 'V2.decode(V1.encode(v1)) != v1: %s (steps %s)' % (diff, log), case,
                                 ['codec:' + codec]))
                continue
            rec.cls('v1->v2:ok')

    def run_shard(self, shard, tier, seed, rec):
        scale = float(os.environ.get('ASN1V_SCALE', '1'))
        n = max(1, int((18 if tier == "quick" else 500) * scale))
        if 'directed' in shard:
            if not shard.get('_shrink'):
                spec1, spec2, log, items = self.directed_pair()
                rec.cases += 1
                rec.cls('directed-cases')
                for codec in CODECS:
                    c1 = asn1tools.compile_string(spec1.text(), codec)
                    c2 = asn1tools.compile_string(spec2.text(), codec)
                    for modname, name, v2s, v1s in items:
                        self.cross(rec, spec1, spec2, c1, c2, codec, modname, name, v2s, v1s, log)
            return

        def body(case, rec):
            spec1, spec2, log, items = case
            if not items or not log:
                rec.discarded['no-extensible-node'] += 1
                return
            t1, t2 = spec1.text(), spec2.text()
            for s in log:
                rec.cls('step:' + s.split('@')[0])
            for codec in CODECS:
                c1 = outcome(asn1tools.compile_string, t1, codec)
                c2 = outcome(asn1tools.compile_string, t2, codec)
                if c1[0] != 'ok' or c2[0] != 'ok':
                    rec.discarded['uncompilable:%s' % (c1[1] if c1[0] != 'ok' else c2[1])] += 1
                    continue
                for modname, name, v2s, v1s in items:
                    self.cross(rec, spec1, spec2, c1[1], c2[1], codec, modname, name, v2s, v1s, log)
            if len(rec.samples) < 2:
                rec.sample({'v1': t1, 'v2': t2, 'steps': log})
        hyp_run(cases(), body, seed, n, rec, shrink=shard.get('_shrink', False), timeout=shard.get('_timeout'))

    def replay(self, case, rec):
        spec1 = jsonio.spec_dec(case['spec'])
        spec2 = jsonio.spec_dec(case['spec2'])
        codec, modname, name = case['codec'], case['module'], case['type']
        c1 = asn1tools.compile_string(spec1.text(), codec)
        c2 = asn1tools.compile_string(spec2.text(), codec)
        v = jsonio.dec(case['value'])
        if case['direction'] == 'v2->v1':
            self.cross(rec, spec1, spec2, c1, c2, codec, modname, name, [v], [], case.get('steps', []))
        else:
            self.cross(rec, spec1, spec2, c1, c2, codec, modname, name, [], [v], case.get('steps', []))


CHECK = C07()
