"""C08 - decoding arbitrary bytes always terminates within bounded time and memory."""
import os
import sys
import tracemalloc

from hypothesis import strategies as st

from .. import aeq, asn, common, env, gen, jsonio, values
from ..common import asn1tools
from ..runner import Check, Failure, exc_sig, hyp_run, watchdog, CaseHang
from .c13 import outcome

CODECS = ['ber', 'der', 'per', 'uper', 'oer', 'jer', 'xer']
FLOOR_EVENTS = 20000
FACTOR = 50


class WorkExceeded(BaseException):
    pass


class Meter(object):
    """Deterministic work meter: counts Python-level and C-level call events."""

    def __init__(self, budget):
        self.n = 0
        self.budget = budget

    def __call__(self, frame, event, arg):
        if event == 'call' or event == 'c_call':
            self.n += 1
            if self.n > self.budget:
                sys.setprofile(None)
                raise WorkExceeded()


def metered(fn, budget):
    """-> ('ok', value, events) | ('exc', type name, text, events) | ('work', events)"""
    m = Meter(budget)
    sys.setprofile(m)
    try:
        try:
            v = fn()
            return ('ok', v, m.n)
        finally:
            sys.setprofile(None)
    except WorkExceeded:
        return ('work', m.n)
    except RecursionError as e:
        return ('exc', 'RecursionError', str(e), m.n)
    except MemoryError as e:
        return ('memory', m.n)
    except Exception as e:
        return ('exc', type(e).__name__, str(e)[:200], m.n)


def mutate(data, muts, other):
    """apply drawn mutations (op, pos, val) to a bytes object"""
    b = bytearray(data)
    for op, pos, val in muts:
        n = len(b)
        op = op % 10
        if op == 0 and n:
            b[pos % n] ^= 1 << (val % 8)
        elif op == 1 and n:
            del b[pos % n:]
        elif op == 2:
            b.insert(pos % (n + 1), val % 256)
        elif op == 3 and n:
            del b[pos % n]
        elif op == 4 and n:
            b[pos % n] = [0xff, 0x80, 0x7f, 0x00, 0x81, 0x84, 0xc4, 0xbf][val % 8]
        elif op == 5:
            p = pos % (n + 1)
            b[p:p] = other[:(val % 64)]
        elif op == 6 and n:
            p = pos % n
            b[p:p] = b[p:p + (val % 32)] * 3
        elif op == 7 and n:
            # length-field style tampering: a run of 0xff / big-endian large number
            p = pos % n
            b[p:p + 1] = bytes([0x84, 0xff, 0xff, 0xff, 0xff][:1 + val % 5])
        elif op == 8:
            b = bytearray(bytes([(val * 7 + i * 13 + pos) % 256 for i in range(val % 200)]))
        elif op == 9 and n:
            p = pos % n
            b[p] = (b[p] + 1) % 256
    return bytes(b[:4096])


NEST_DEPTHS = [1, 2, 3, 8, 14, 18, 24, 40, 100, 300]


def mutate_tlv(data, muts, other):
    """structure-aware mutations of a BER/DER encoding through the independent TLV layer: the first drawn
    (op, pos, val) picks a rewrite of the TLV tree (deeply nested constructed segments around a primitive node,
    indefinite lengths everywhere, children repeated, the whole message wrapped in nested constructed nodes);
    the remaining draws are applied as byte-level mutations"""
    from ..model import tlv
    try:
        root, end = tlv.parse(data)
        if end != len(data):
            raise tlv.TlvError('trailing')
    except Exception:
        return mutate(data, muts, other)
    nodes = []

    def walk(n):
        nodes.append(n)
        for c in (n.children or []):
            walk(c)
    walk(root)
    op, pos, val = muts[0]
    op = op % 4
    prims = [n for n in nodes if n.children is None]
    cons = [n for n in nodes if n.children is not None]
    if op == 0 and prims:
        n = prims[pos % len(prims)]
        depth = NEST_DEPTHS[val % len(NEST_DEPTHS)]
        seg_tag = ('UNIVERSAL', 3 if (n.cls, n.num) == ('UNIVERSAL', 3) else 4) if val & 16 else (n.cls, n.num)
        inner = tlv.Node(seg_tag[0], seg_tag[1], False, content=n.content)
        for i in range(depth - 1):
            w = tlv.Node(seg_tag[0], seg_tag[1], True, children=[inner])
            w.indefinite = bool(val & 32) and i % 2 == 0
            inner = w
        n.constructed, n.content, n.children = True, None, [inner]
        n.indefinite = bool(val & 64)
    elif op == 1 and cons:
        for n in cons:
            n.indefinite = True
    elif op == 2 and cons:
        n = cons[pos % len(cons)]
        k = [2, 3, 16, 100][val % 4]
        if n.children:
            n.children = (n.children * k)[:400]
    else:
        depth = NEST_DEPTHS[val % len(NEST_DEPTHS)]
        for i in range(depth):
            w = tlv.Node(root.cls, root.num, True, children=[root]) if val & 16 else \
                tlv.Node('UNIVERSAL', 16, True, children=[root])
            w.indefinite = bool(val & 32)
            root = w
    try:
        out = tlv.serialize(root)
    except (tlv.TlvError, RecursionError):
        return mutate(data, muts, other)
    if len(muts) > 1:
        out = mutate(out, muts[1:], other)
    return bytes(out[:4096])


def mutate_text(data, muts, other):
    """token-level mutations for JER / XER documents (no DTD / entity tokens introduced)"""
    try:
        t = data.decode('utf-8')
    except UnicodeDecodeError:
        return mutate(data, muts, other)
    toks = ['{', '}', '[', ']', ',', ':', '"', '<', '>', '/', '</a>', '<a>', '0', '-1', '1e999', 'null', 'true',
            '""', '<a/>', ' ', '9' * 40, '\\u0000', '\\', "'"]
    import re
    for op, pos, val in muts:
        n = len(t)
        op = op % 7
        p = pos % (n + 1)
        if op == 6:
            # inflate / replace a number of the document (a length or count field, an index, an exponent)
            runs = list(re.finditer(r'-?\d+', t))
            if runs:
                m_ = runs[pos % len(runs)]
                big = ['268435456', '4294967296', '99999999999', '1e9', '-1', '65536', '2147483648', '1' + '0' * 30][val % 8]
                t = t[:m_.start()] + big + t[m_.end():]
            continue
        if op == 0:
            t = t[:p] + toks[val % len(toks)] + t[p:]
        elif op == 1 and n:
            t = t[:p] + t[p + 1 + val % 4:]
        elif op == 2 and n:
            t = t[:p]
        elif op == 3 and n:
            q = (p + val) % (n + 1)
            a, b_ = min(p, q), max(p, q)
            t = t[:a] + t[a:b_] * 2 + t[b_:]
        elif op == 4 and n:
            t = t[:p] + toks[val % len(toks)] + t[p + 1:]
        elif op == 5:
            return mutate(t.encode('utf-8'), [(val, pos, val)], other)
    return t.encode('utf-8', 'replace')[:4096]


@st.composite
def cases(draw, prof, vcfg):
    spec, items = draw(common.spec_cases(prof, vcfg, max_types=3, max_values=2))
    muts = draw(st.lists(st.lists(st.tuples(st.integers(0, 9), st.integers(0, 5000), st.integers(0, 255)),
                                  min_size=1, max_size=3), min_size=4, max_size=10))
    return spec, items, muts


class C08(Check):
    id = 'C08'
    rule = ('cases = generated modules x types x valid encodings x 4-10 drawn mutations each (bit flips, truncation, '
            'insertion, deletion, splicing, length-field tampering, repetition, random bytes <= 4 KiB; for BER/DER one '
            'mutation in three rewrites the TLV tree: constructed segments nested up to 300 deep, indefinite lengths, '
            'repeated children, nested wrappers; token-level '
            'mutations for JER/XER) x 7 decoding codecs; oracle: decode returns or raises within a deterministic work '
            'budget (call-event count <= 50 x the largest events-per-(len+64)(|T|+1) seen on valid decodes, floor 20000), '
            'tracemalloc peak within 8 MiB + proportional budget on a sample, and the SAME compiled object still decodes a '
            'valid encoding to the expected value afterwards, also after 30 (recursive types: 300) repetitions of all malformed inputs of the type; evaluation = one mutated decode; non-trivial = input differs '
            'from every valid encoding and is non-empty; distinct = hash(type, codec, input)')
    assumptions = ['work is measured in interpreter call events (sys.setprofile), independent of machine speed; a loop '
                   'inside a C extension without events is only caught by the 20 s watchdog',
                   'expat/json internals are trusted (no DTD/entity tokens are generated)']

    def shards(self, tier):
        out = []
        for i in range(16):
            out.append({'codec': CODECS[i % len(CODECS)], 'i': i})
        return out

    def run_shard(self, shard, tier, seed, rec):
        codec = shard['codec']
        # backstop: an allocation of gigabytes fails fast with MemoryError (reported as unbounded-memory) instead of
        # taking the machine down
        try:
            import resource
            lim = 6 * 2 ** 30
            soft, hard = resource.getrlimit(resource.RLIMIT_AS)
            if soft == resource.RLIM_INFINITY or soft > lim:
                resource.setrlimit(resource.RLIMIT_AS, (lim, hard))
        except Exception:
            pass
        scale = float(os.environ.get('ASN1V_SCALE', '1'))
        n = max(1, int((90 if tier == "quick" else 1500) * scale))
        prof = gen.Profile(max_types=4, max_depth=3)
        # zero-width element types at a fixed weight (count-prefixed loops are not bounded by out-of-data checks)
        prof.kinds = prof.kinds + ['NULL', 'NULL']
        vcfg = values.ValCfg(max_len=20, max_depth=3, chars='xml' if codec == 'xer' else 'any')
        textual = codec in ('jer', 'xer')

        pool = []       # (module text, type, valid encodings, rate, tsize, case json) for the atheris campaign

        def body(case, rec):
            spec, items, muts = case
            if not items:
                return
            c = common.compile_spec(spec, codec, False, rec)
            if c is None:
                return
            for modname, name, vals in items:
                ty = dict(spec.by_name[modname].types)[name]
                tsize = common.tree_size(spec, ty, modname)
                valid = []
                rate = 0.0
                for v in vals:
                    e = outcome(c.encode, name, v)
                    if e[0] != 'ok':
                        continue
                    e = bytes(e[1])
                    r = metered(lambda: c.decode(name, e), 10 ** 7)
                    if r[0] != 'ok':
                        rec.cls('own-output-undecodable(C01)')
                        continue
                    valid.append((e, r[1]))
                    rate = max(rate, r[2] / float((len(e) + 64) * (tsize + 1)))
                if not valid:
                    continue
                sentinel, expected = valid[0]
                other = valid[-1][0]
                if len(pool) < 48:
                    pool.append({'text': spec.text(), 'type': name, 'valid': [v_[0].hex() for v_ in valid],
                                 'rate': rate, 'tsize': tsize,
                                 'case': common.mk_case(spec, modname, name, vals[0], codec=codec)})
                flagged = False
                for k, ms in enumerate(muts):
                    base = valid[k % len(valid)][0]
                    if codec in ('ber', 'der') and k % 3 == 2:
                        data = mutate_tlv(base, ms, other)
                        rec.cls('tlv-structural-mutations')
                    elif textual and k % 4 == 1:
                        # one mutation in four of a text document inflates one of its numbers
                        data = mutate_text(base, [(6, ms[0][1], ms[0][2])] + list(ms[1:2]), other)
                        rec.cls('number-inflation-mutations')
                    else:
                        data = (mutate_text if textual else mutate)(base, ms, other)
                    budget = int(max(FLOOR_EVENTS, FACTOR * max(rate, 1.0) * (len(data) + 64) * (tsize + 1)))
                    rec.ev()
                    # memory is always measured for the text codecs (their inputs are small and a single C call can
                    # allocate without any call event), on a sample for the binary ones
                    sample_mem = textual or (rec.evaluations % 8 == 0)
                    if sample_mem:
                        tracemalloc.start()
                    try:
                        with watchdog(20):
                            r = metered(lambda: c.decode(name, data), budget)
                    except CaseHang:
                        r = ('hang',)
                    finally:
                        if sample_mem:
                            peak = tracemalloc.get_traced_memory()[1]
                            tracemalloc.stop()
                    case_json = common.mk_case(spec, modname, name, vals[0], codec=codec, input=data.hex(),
                                               valid=sentinel.hex(), budget=budget)
                    feats = sorted(common.type_features(spec, ty, modname)) + ['codec:' + codec]
                    if r[0] in ('work', 'hang', 'memory'):
                        flagged = True
                        rec.fail(Failure('unbounded-' + r[0], 'decode of %d input bytes on a type of %d nodes used more '
                                         'than %d call events (valid decodes need %.1f per unit): %s' % (
                                             len(data), tsize, budget, rate, data.hex()[:80]), case_json, feats))
                        continue
                    if sample_mem and peak > 8 * 2 ** 20 + 4096 * (len(data) + 64) * (tsize + 1):
                        flagged = True
                        rec.fail(Failure('unbounded-memory', 'decode of %d input bytes allocated %d bytes (tracemalloc '
                                         'peak)' % (len(data), peak), case_json, feats))
                        continue
                    rec.cls('returned' if r[0] == 'ok' else 'raised:' + r[1])
                    # sentinel: the same compiled object still decodes a valid input to the same value
                    s = outcome(c.decode, name, sentinel)
                    if s[0] != 'ok' or repr(s[1]) != repr(expected):
                        rec.fail(Failure('state-corrupted', 'after decoding %s the same object decodes the valid input %s '
                                         'to %s instead of %s' % (data.hex()[:60], sentinel.hex()[:60],
                                                                  str(s[1:])[:100], repr(expected)[:100]),
                                         case_json, feats))
                        continue
                    if data and all(data != v_[0] for v_ in valid):
                        rec.nt(name, codec, data.hex())
                # stress: state that a failing decode leaves behind may only show after many of them (a counter that
                # is not restored, a cache that fills up): repeat every mutated input of this type on the same
                # compiled object, then the sentinel once more
                burst = []
                if flagged:
                    continue
                for k, ms in enumerate(muts):
                    base = valid[k % len(valid)][0]
                    burst.append(mutate_tlv(base, ms, other) if (codec in ('ber', 'der') and k % 3 == 2) else
                                 (mutate_text if textual else mutate)(base, ms, other))
                rounds = 300 if 'recursive' in common.type_features(spec, ty, modname) else 30
                try:
                    with watchdog(120):
                        for _ in range(rounds):
                            for d_ in burst:
                                if len(d_) <= 512:
                                    outcome(c.decode, name, d_)
                        s = outcome(c.decode, name, sentinel)
                except CaseHang:
                    s = ('hang',)
                rec.ev()
                if s[0] != 'ok' or repr(s[1]) != repr(expected):
                    rec.fail(Failure('state-corrupted', 'after %d rounds of %d malformed inputs the same object decodes the '
                                     'valid input %s to %s instead of %s' % (rounds, len(burst), sentinel.hex()[:60],
                                                                           str(s[1:])[:100], repr(expected)[:100]),
                                     common.mk_case(spec, modname, name, vals[0], codec=codec, input=burst[0].hex(),
                                                    valid=sentinel.hex(), budget=10 ** 9,
                                                    burst=[b_.hex() for b_ in burst], rounds=rounds), feats))
                    continue
                if len(rec.samples) < 2:
                    rec.sample({'codec': codec, 'type': name, 'module_text': spec.text(),
                                'valid': sentinel.hex()[:100], 'mutated_example': data.hex()[:100]})
        hyp_run(cases(prof, vcfg), body, seed, n, rec, shrink=shard.get('_shrink', False),
                timeout=shard.get('_timeout'))
        if tier == 'thorough' and pool and not shard.get('_shrink'):
            self.atheris_campaign(codec, pool, seed, rec, int(150000 * scale))

    def atheris_campaign(self, codec, pool, seed, rec, runs):
        """coverage-guided fuzzing (atheris / libFuzzer) of the decoders of the modules met during exploration,
        same oracle (work meter + sentinel) inside the target"""
        import json
        import shutil
        import subprocess
        import tempfile
        deps = os.path.join(env.VERIF_DIR, '.deps')
        probe = subprocess.run([sys.executable, '-c', 'import atheris'], capture_output=True,
                               env=dict(os.environ, PYTHONPATH=deps))
        if probe.returncode != 0:
            rec.notes['atheris-not-importable(engine: hypothesis-only)'] += 1
            return
        work = tempfile.mkdtemp(prefix='asn1v-c08-', dir=os.environ.get('TMPDIR', '/tmp'))
        try:
            corpus = os.path.join(work, 'corpus')
            os.makedirs(corpus)
            k = 0
            for i, e in enumerate(pool):
                for hx in e['valid']:
                    with open(os.path.join(corpus, 's%d' % k), 'wb') as f:
                        f.write(bytes([i]) + bytes.fromhex(hx))
                    k += 1
            job = {'repo': env.REPO, 'verif': env.VERIF_DIR, 'codec': codec, 'floor': FLOOR_EVENTS, 'factor': FACTOR,
                   'out': work, 'entries': [{k_: e[k_] for k_ in ('text', 'type', 'valid', 'rate', 'tsize')}
                                            for e in pool]}
            jf = os.path.join(work, 'job.json')
            with open(jf, 'w') as f:
                json.dump(job, f)
            try:
                p = subprocess.run([sys.executable, os.path.join(env.VERIF_DIR, 'vlib', 'fuzz_c08.py'), jf,
                                    '-runs=%d' % runs, '-seed=%d' % (seed % (2 ** 31) or 1), '-max_len=4096',
                                    '-timeout=60', '-artifact_prefix=' + work + '/', corpus],
                                   capture_output=True, timeout=3000,
                                   env=dict(os.environ, PYTHONPATH=deps, PYTHONHASHSEED='0'))
            except subprocess.TimeoutExpired:
                rec.notes['atheris-campaign-wall-clock-limit(inconclusive)'] += 1
                return
            stats = {}
            try:
                stats = json.load(open(os.path.join(work, 'stats.json')))
            except Exception:
                pass
            rec.cls('atheris-campaigns')
            rec.classes['atheris-execs'] += stats.get('execs', 0)
            rec.evaluations += stats.get('execs', 0)
            for j in range(min(stats.get('distinct', 0), 5000)):
                rec.nontrivial.add('atheris:%s:%d:%d' % (codec, seed, j))
            fj = os.path.join(work, 'finding.json')
            if os.path.exists(fj):
                fd = json.load(open(fj))
                e = pool[fd['entry']]
                data = bytes.fromhex(fd['input'])
                budget = int(max(FLOOR_EVENTS, FACTOR * max(e['rate'], 1.0) * (len(data) + 64) * (e['tsize'] + 1)))
                case = dict(e['case'], input=fd['input'], valid=e['valid'][0], budget=budget, engine='atheris')
                rec.fail(Failure(fd['kind'], 'atheris: %s: %s' % (fd['message'], fd['input'][:80]), case,
                                 ['codec:' + codec, 'engine:atheris']))
            elif p.returncode != 0:
                tail = p.stderr.decode('utf-8', 'replace')[-300:]
                crash = [fn for fn in os.listdir(work) if fn.startswith(('crash-', 'timeout-', 'oom-'))]
                if crash and crash[0].startswith('timeout-'):
                    raw = open(os.path.join(work, crash[0]), 'rb').read()
                    e = pool[raw[0] % len(pool)] if raw else pool[0]
                    case = dict(e['case'], input=raw[1:].hex(), valid=e['valid'][0], budget=10 ** 9, engine='atheris')
                    rec.fail(Failure('unbounded-hang', 'atheris: a decode did not return within 60 s: %s'
                                     % raw[1:].hex()[:80], case, ['codec:' + codec, 'engine:atheris']))
                else:
                    rec.notes['atheris-child-failed:' + tail[-120:]] += 1
        finally:
            shutil.rmtree(work, ignore_errors=True)

    def replay(self, case, rec):
        spec, modname, name, ty, v = common.load_case(case)
        codec = case['codec']
        c = asn1tools.compile_string(spec.text(), codec)
        data = bytes.fromhex(case['input'])
        sentinel = bytes.fromhex(case['valid'])
        expected = outcome(asn1tools.compile_string(spec.text(), codec).decode, name, sentinel)
        if case.get('burst'):
            for _ in range(case.get('rounds', 30)):
                for hx in case['burst']:
                    outcome(c.decode, name, bytes.fromhex(hx))
        try:
            with watchdog(20):
                r = metered(lambda: c.decode(name, data), case['budget'])
        except CaseHang:
            r = ('hang',)
        if r[0] in ('work', 'hang', 'memory'):
            rec.fail(Failure('unbounded-' + r[0], 'decode exceeded the work budget %d' % case['budget'], case))
            return
        s = outcome(c.decode, name, sentinel)
        if repr(s) != repr(expected):
            rec.fail(Failure('state-corrupted', 'sentinel decode differs afterwards', case))


CHECK = C08()
