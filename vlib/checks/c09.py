"""C09 - generated UPER C code is equivalent to the Python UPER codec and memory-safe."""
from .cgen import CGenCheck


class C09(CGenCheck):
    id = 'C09'
    codec = 'uper'
    engine = 'hypothesis + gcc + pycparser/ctypes + libFuzzer(ASan,UBSan)'
    rule = ('programs = generated modules in the documented UPER C subset (15% with one construct outside it); each is '
            'compiled to C by asn1tools.source.c.generate, built with gcc -std=c99 -pedantic-errors -Wall -Wextra, its '
            'header parsed by pycparser into ctypes structs and driven in a child process: C encode == Python UPER bytes, '
            'C decode == value (every field, flag, length, selector), every destination size 0..len-1 gives an error with '
            'the canary intact, truncated inputs do not crash; every third module also runs the generator\'s own '
            'libFuzzer harness under ASan+UBSan from a corpus of valid encodings and their prefixes; evaluation = one '
            'value or one campaign; non-trivial = type with OPTIONAL/DEFAULT/OF/CHOICE/reference; distinct = '
            'hash(module, type, value)')
    assumptions = ['a module the generator rejects with asn1tools.errors.Error is a clean rejection (counted; over-rejection '
                   'of in-subset modules is reported in notes, not a violation)',
                   'struct view comes from pycparser on the generated header; field names follow the header\'s documented '
                   'conventions (is_<m>_present, length/buf, length/elements, choice/value)']


CHECK = C09()
