"""C10 - generated OER C code is equivalent to the Python OER codec and memory-safe."""
from .cgen import CGenCheck


class C10(CGenCheck):
    id = 'C10'
    codec = 'oer'
    engine = 'hypothesis + gcc + pycparser/ctypes + libFuzzer(ASan,UBSan)'
    rule = ('as C09 for codec oer, with REAL binary32/64 and SEQUENCE extension additions in the subset; additionally '
            'V2 = V1 + extension steps: Python-V2 encodings are fed to the V1 C decoder, which must succeed and yield the '
            'V1 projection (unknown additions skipped by length); evaluation = one value, one cross-version decode or one '
            'libFuzzer campaign; non-trivial = type with OPTIONAL/DEFAULT/OF/CHOICE/reference; distinct = '
            'hash(module, type, value)')
    assumptions = ['as C09; the Python OER codec is the reference for byte equality (its own conformance is C06)']


CHECK = C10()
