"""C11 - check_constraints accepts exactly the values the declared constraints admit."""
from hypothesis import strategies as st

from .. import asn, common, gen, jsonio, values
from ..common import SpecValueCheck, NOVALUE
from ..model import constraints as cmodel

ALPHA_OF = {'NumericString': asn.NUMERIC_ALPHA, 'PrintableString': asn.PRINTABLE_ALPHA,
            'VisibleString': asn.VISIBLE_ALPHA, 'IA5String': asn.VISIBLE_ALPHA}


def perturbations(r, v):
    """Out-of-constraint replacements for one node (same Python type), with a label."""
    out = []
    k = r.base.kind
    if k == 'INTEGER' and r.rng is not None and isinstance(v, int) and not isinstance(v, bool):
        if r.rng.lo is not None:
            out.append(('lb-1', r.rng.lo - 1))
        if r.rng.hi is not None:
            out.append(('ub+1', r.rng.hi + 1))
        if r.rng.lo is not None:
            out.append(('lb', r.rng.lo))
        if r.rng.hi is not None:
            out.append(('ub', r.rng.hi))
    if r.size is not None and k in cmodel.SIZED and not (k == 'BIT STRING' and r.base.named_bits):
        lo, hi = r.size.lo or 0, r.size.hi

        def resize(n):
            if n < 0 or n > 300:
                return None
            if k == 'BIT STRING':
                return (b'\xa5' * ((n + 7) // 8), n)
            if k == 'OCTET STRING':
                return (bytes(v) + b'\x5a' * n)[:n]
            if k in ('SEQUENCE OF', 'SET OF'):
                if n <= len(v):
                    return list(v[:n])
                return list(v) + [v[-1]] * (n - len(v)) if v else None
            if isinstance(v, str):
                pad = v[-1] if v else (r.alpha.chars()[0] if r.alpha is not None else
                                       ('1' if k == 'NumericString' else 'a'))
                return (v + pad * n)[:n]
            return None
        for label, n in (('size-lb-1', lo - 1), ('size-ub+1', None if hi is None else hi + 1),
                         ('size-lb', lo), ('size-ub', hi)):
            if n is None:
                continue
            nv = resize(n)
            if nv is not None:
                out.append((label, nv))
    if k == 'INTEGER' and isinstance(v, int) and not isinstance(v, bool):
        # serial application: the bounds of the ranges further down the reference chain
        for c in r.rngs[1:]:
            if c.lo is not None:
                out += [('inner-lb-1', c.lo - 1), ('inner-lb', c.lo)]
            if c.hi is not None:
                out += [('inner-ub+1', c.hi + 1), ('inner-ub', c.hi)]
    if r.alpha is not None and isinstance(v, str) and k in ALPHA_OF and len(v) > 0:
        outside = [c for c in ALPHA_OF[k] if c not in r.alpha.chars()]
        if outside:
            out.append(('alphabet', v[:-1] + outside[len(v) % len(outside)]))
    return out


class C11(SpecValueCheck):
    id = 'C11'
    codecs = ['ber', 'jer', 'uper', 'oer']
    numeric_enums_variants = (False,)
    quick_n = 60
    thorough_n = 1500
    rule = ('cases = generated modules (single value / single range / MIN / MAX / value-reference bounds on INTEGER, SIZE '
            'on strings, BIT/OCTET STRING and OF, FROM alphabets, each also extensible, placed directly, on members, '
            'on OF elements, through and at references) x valid value, then every constrained component of the value '
            'replaced in turn by lb-1, lb, ub, ub+1 (sizes likewise; one character outside FROM); evaluation = one '
            'encode(check_constraints=True) or decode(check_constraints=True) judged against the independent '
            'interpreter; non-trivial = the probed component sits at a bound +-1 below the top level; distinct = '
            'hash(module, type, codec, value)')
    assumptions = ['vlib/model/constraints.py is the reference: a constraint counts only if non-extensible and written '
                   'as a single value or single range (the forms the property names)']

    def profile(self, tier, shard):
        p = super().profile(tier, shard)
        p.real_wc = False
        p.ref_constraint_rate = 55
        p.stack_rate = 35
        p.named_rate = 45
        p.via_ref_floor_rate = 70
        # weight the kinds that can carry an interpreted constraint
        p.kinds = p.kinds + ['INTEGER'] * 8 + ['OCTET STRING', 'BIT STRING', 'IA5String', 'VisibleString',
                                               'UTF8String', 'GeneralString', 'UniversalString', 'BMPString'] * 2
        return p

    def valcfg(self, tier, shard):
        return values.ValCfg(numeric_enums=False, out_of_root=True, max_len=30,
                             chars='xml' if shard['codec'] == 'xer' else 'any')

    def judge(self, x, v, label, depth_ok):
        """One evaluation: model vs library on value v."""
        rec = x.rec
        viol = cmodel.violations(x.spec, x.ty, x.modname, v)
        rec.ev()
        try:
            e = x.c.encode(x.name, v, check_types=True, check_constraints=True)
            got = None
        except common.A_ConstraintsError as ex:
            got = ex
            e = None
        except NotImplementedError:
            rec.cls('declared-unsupported')
            return
        except common.A_EncodeError as ex:
            # not a constraints verdict (type check or codec limitation): outside C11
            rec.cls('other-encode-error')
            return
        except Exception as ex:
            rec.cls('encode-crash(C01)')
            return
        case_extra = {'probe': label}
        xv = common.Ctx(c=x.c, spec=x.spec, modname=x.modname, name=x.name, ty=x.ty, v=v, codec=x.codec,
                        ne=x.ne, rec=rec, shard=x.shard)
        if viol and got is None:
            xv.fail('silent-accept', '%s: value violates %s at %s but encode(check_constraints=True) returned %s'
                    % (label, viol[0][1], viol[0][0] or '<top>', bytes(e).hex()[:80]), **case_extra)
            return
        if not viol and got is not None:
            xv.fail('false-reject', '%s: value satisfies every interpreted constraint but ConstraintsError: %s'
                    % (label, got), **case_extra)
            return
        rec.cls('agree:' + ('violated' if viol else 'ok'))
        if label != 'valid' and depth_ok:
            rec.nt(x.codec, x.name, x.spec.text(), jsonio.enc(v))
        # decode side (codecs that can carry an out-of-constraint value)
        if x.codec in ('ber', 'jer'):
            try:
                e2 = x.c.encode(x.name, v, check_types=True, check_constraints=False)
            except Exception:
                return
            try:
                d = x.c.decode(x.name, e2)
            except Exception:
                rec.cls('decode-other-error')
                return
            # what the decoder hands to the checker is the decoded value (some text forms cannot
            # carry e.g. the length of a fixed-size BIT STRING): judge that value
            viol = cmodel.violations(x.spec, x.ty, x.modname, d)
            rec.ev()
            try:
                x.c.decode(x.name, e2, check_constraints=True)
                dgot = None
            except common.A_ConstraintsError as ex:
                dgot = ex
            except Exception:
                rec.cls('decode-other-error')
                return
            if viol and dgot is None:
                xv.fail('decode-silent-accept', '%s: decode(check_constraints=True) accepted a value violating %s at %s'
                        % (label, viol[0][1], viol[0][0] or '<top>'), **case_extra)
            elif not viol and dgot is not None:
                xv.fail('decode-false-reject', '%s: decode(check_constraints=True) rejected a valid value: %s'
                        % (label, dgot), **case_extra)
            # the second decoding entry point: decode_with_length(check_constraints=True) must give
            # the same verdict as the model on the same octets
            if x.codec == 'ber':
                rec.ev()
                try:
                    x.c.decode_with_length(x.name, e2, check_constraints=True)
                    lgot = None
                except common.A_ConstraintsError as ex:
                    lgot = ex
                except Exception:
                    rec.cls('decode-with-length-other-error')
                    return
                rec.cls('decode-with-length:' + ('violated' if viol else 'ok'))
                if viol and lgot is None:
                    xv.fail('decode-with-length-silent-accept',
                            '%s: decode_with_length(check_constraints=True) accepted a value violating %s at %s'
                            % (label, viol[0][1], viol[0][0] or '<top>'), **case_extra)
                elif not viol and lgot is not None:
                    xv.fail('decode-with-length-false-reject',
                            '%s: decode_with_length(check_constraints=True) rejected a valid value: %s'
                            % (label, lgot), **case_extra)

    def oracle(self, x):
        self.judge(x, x.v, 'valid', False)
        nodes = list(common.walk_values(x.spec, x.ty, x.modname, x.v))
        probes = []
        for i, n in enumerate(nodes):
            for label, nv in perturbations(n.r, n.value):
                probes.append((i, label, nv, n.path))
        # bounded per value; deterministic thinning
        step = max(1, len(probes) // 12)
        for (i, label, nv, path) in probes[::step][:12]:
            v2 = common.map_values(x.spec, x.ty, x.modname, x.v,
                                   lambda idx, r, val: nv if idx == i else NOVALUE)
            x.rec.cls('probe:' + label)
            self.judge(x, v2, '%s@%s' % (label, path or '<top>'), bool(path))
        self.sample(x)


CHECK = C11()
