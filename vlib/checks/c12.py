"""C12 - ill-typed or out-of-constraint components are rejected with the exact path."""
import datetime

from .. import asn, common, gen, jsonio, values
from ..common import SpecValueCheck, NOVALUE
from ..model import paths
from .c11 import perturbations

CODECS = ['ber', 'der', 'per', 'uper', 'oer', 'jer', 'xer', 'gser']


def corruptions(r, v, ne):
    """(label, replacement) pairs the type checker is written to reject at this node."""
    k = r.base.kind
    out = []
    if k == 'INTEGER':
        out = [('int<-None', None), ('int<-float', 1.5), ('int<-bytes', b'x'), ('int<-list', [1])]
    elif k == 'BOOLEAN':
        out = [('bool<-int', 1), ('bool<-str', 'TRUE'), ('bool<-None', None)]
    elif k == 'REAL':
        out = [('real<-str', '1.0'), ('real<-None', None), ('real<-bytes', b'')]
    elif k == 'NULL':
        out = [('null<-int', 0), ('null<-str', ''), ('null<-false', False)]
    elif k == 'BIT STRING':
        out = [('bits<-bytes', b'\x00'), ('bits<-3tuple', (b'\x00', 1, 2)), ('bits<-short', (b'\x00', 99)),
               ('bits<-strtuple', ('a', 3)), ('bits<-list', [b'\x00', 1])]
    elif k == 'OCTET STRING':
        out = [('octets<-str', 'ab'), ('octets<-int', 5), ('octets<-None', None)]
    elif k in asn.STRING_KINDS or k == 'OBJECT IDENTIFIER':
        out = [('str<-bytes', b'ab'), ('str<-int', 5), ('str<-None', None)]
    elif k == 'ENUMERATED':
        if ne:
            out = [('enum<-str', 'red'), ('enum<-None', None)]
        else:
            out = [('enum<-int', 5), ('enum<-None', None), ('enum<-unknown-name', 'no-such-item')]
    elif k == 'CHOICE':
        out = [('choice<-list', ['a', 1]), ('choice<-1tuple', ('a',)), ('choice<-unknown', ('no-such-alt', 1)),
               ('choice<-str', 'a'), ('choice<-inttag', (1, 2))]
    elif k in ('SEQUENCE', 'SET'):
        out = [('dict<-list', []), ('dict<-None', None), ('dict<-int', 5)]
    elif k in ('SEQUENCE OF', 'SET OF'):
        out = [('list<-tuple', (1, 2)), ('list<-dict', {}), ('list<-None', None)]
    elif k in ('UTCTime', 'GeneralizedTime', 'DATE-TIME'):
        out = [('time<-str', '2020'), ('time<-int', 5), ('time<-date', datetime.date(2020, 1, 1))]
    elif k == 'DATE':
        out = [('date<-str', '2020'), ('date<-int', 5)]
    elif k == 'TIME-OF-DAY':
        out = [('tod<-str', '10'), ('tod<-int', 5)]
    return out


class C12(SpecValueCheck):
    id = 'C12'
    codecs = CODECS
    quick_n = 40
    thorough_n = 1000
    max_values = 2
    rule = ('cases = generated modules x types x valid values; every component position of the value (capped at 60) x '
            'every corruption kind applicable there (Python types the type check is written to reject, unknown CHOICE '
            'alternative / ENUMERATED name, missing mandatory member, constraint violation) x 8 codecs; evaluation = '
            'one encode(check_types=True, check_constraints=True) of a corrupted value; non-trivial = position depth '
            '>= 2 or inside OF/CHOICE/addition/recursive hop; distinct = hash(module, type, codec, corrupted value)')
    assumptions = ['expected path = top-level type name + member/alternative names (vlib/model/paths.py); tokens the '
                   'library inserts at recursive references are optional',
                   'the uncorrupted value must never be rejected by the type check']

    def valcfg(self, tier, shard):
        return values.ValCfg(numeric_enums=shard['ne'], max_len=8, max_depth=3,
                             chars='xml' if shard['codec'] == 'xer' else 'any')

    def shards(self, tier):
        out = []
        for i, codec in enumerate(CODECS):
            out.append({'codec': codec, 'ne': False})
            out.append({'codec': codec, 'ne': i % 2 == 0, 'extra': 1})
        for codec in CODECS:
            out.append({'codec': codec, 'ne': False, 'directed': True})
        return out

    def directed(self, tier, shard):
        """a module by construction in which CHOICE, SEQUENCE, ENUMERATED and lists are nested in each other in every
        way (CHOICE as list element, list of lists, CHOICE in CHOICE, additions and groups, a recursive type); on it
        EVERY position x EVERY applicable corruption is tried (no thinning)"""
        from ..asn import Ty, Member, Group, Module, Spec, Rng
        m = Module('M', 'AUTOMATIC')
        R = lambda n: Ty('REF', ref=n)
        m.types = [
            ('E', Ty('ENUMERATED', enum_root=[('red', 0, False), ('green', 1, False), ('blue', 2, False)])),
            ('P', Ty('SEQUENCE', root=[Member('x', Ty('INTEGER', rng=Rng(0, 100))), Member('color', R('E')),
                                       Member('name', Ty('IA5String', size=Rng(1, 5)), optional=True)])),
            ('C', Ty('CHOICE', root=[Member('point', R('P')), Member('flag', Ty('BOOLEAN')),
                                     Member('deep', Ty('CHOICE', root=[Member('p2', R('P')), Member('n', Ty('NULL'))]))])),
            ('L', Ty('SEQUENCE OF', elem=R('C'))),
            ('S', Ty('SET OF', elem=R('C'))),
            ('LL', Ty('SEQUENCE OF', elem=Ty('SEQUENCE OF', elem=R('P')))),
            ('D', Ty('SEQUENCE', root=[Member('shapes', R('L')), Member('sset', R('S'), optional=True),
                                       Member('one', R('C')), Member('grid', R('LL'))],
                     ext=[Member('ext1', R('P'), optional=True),
                          Group([Member('g1', R('C')), Member('g2', R('E'))])])),
            ('T', Ty('SET', root=[Member('a', R('P')), Member('b', Ty('SEQUENCE OF', elem=R('E'))),
                                  Member('c', Ty('BIT STRING', size=Rng(4, 4)))])),
            ('Rc', Ty('SEQUENCE', root=[Member('v', Ty('INTEGER')), Member('next', R('Rc'), optional=True),
                                        Member('kids', Ty('SEQUENCE OF', elem=R('Rc')))])),
        ]
        pt = {'x': 5, 'color': 'green', 'name': 'ab'}
        p2 = {'x': 100, 'color': 'blue'}
        d = {'shapes': [('point', pt), ('flag', True), ('deep', ('p2', p2)), ('deep', ('n', None))],
             'sset': [('point', p2)], 'one': ('deep', ('p2', pt)), 'grid': [[pt, p2], [p2]],
             'ext1': pt, 'g1': ('point', p2), 'g2': 'red'}
        if shard['ne']:
            return []
        items = [('D', [d]), ('L', [[('point', pt), ('deep', ('p2', p2))]]), ('S', [[('deep', ('p2', pt))]]),
                 ('LL', [[[pt], [p2, pt]]]), ('T', [{'a': pt, 'b': ['red', 'blue'], 'c': (b'\xa0', 4)}]),
                 ('Rc', [{'v': 1, 'next': {'v': 2, 'kids': []}, 'kids': [{'v': 3, 'kids': []}]}])]
        spec = Spec([m])
        return [(spec, [('M', name, vals)]) for name, vals in items]

    def attempt(self, x, v2, label, tokens, deep, under_addition=False):
        rec = x.rec
        rec.ev()
        xv = common.Ctx(c=x.c, spec=x.spec, modname=x.modname, name=x.name, ty=x.ty, v=v2, codec=x.codec,
                        ne=x.ne, rec=rec, shard=x.shard)
        xv.extra = {'under_addition': under_addition, 'probe': label,
                    'expected_path': paths.show(tokens),
                    'recursive_hops': sum(1 for _, o in tokens if o)}
        try:
            e = x.c.encode(x.name, v2, check_types=True, check_constraints=True)
        except (common.A_EncodeError, common.A_ConstraintsError) as ex:
            s = str(ex)
            loc = s.split(': ', 1)[0] if ': ' in s else ''
            if not paths.matches(tokens, loc):
                xv.fail('wrong-path', '%s: error text %r does not start with the path %s' % (
                    label, s[:200], paths.show(tokens)))
                return
            rec.cls('rejected-with-path')
            if deep:
                rec.nt(x.codec, x.name, x.spec.text(), label, jsonio.enc(v2))
            return
        except NotImplementedError:
            rec.cls('declared-unsupported')
            return
        except Exception as ex:
            xv.fail('foreign-exception', '%s: %s: %s instead of the library\'s encode/constraints error (expected '
                    'path %s)' % (label, type(ex).__name__, str(ex)[:200], paths.show(tokens)), ex)
            return
        xv.fail('accepted', '%s: corrupted value was encoded to %r (expected an error at %s)' % (
            label, bytes(e)[:60], paths.show(tokens)))

    def replay_oracle(self, x, case):
        toks = []
        for part in case['expected_path'].split('.'):
            if part.startswith('(') and part.endswith(')'):
                toks.append((part[1:-1], True))
            else:
                toks.append((part, False))
        self.attempt(x, x.v, case.get('probe', '?'), toks, False, case.get('under_addition', False))

    def oracle(self, x):
        rec = x.rec
        # 1. the valid value passes the type check
        rec.ev()
        try:
            x.c.encode(x.name, x.v, check_types=True, check_constraints=True)
        except NotImplementedError:
            rec.cls('declared-unsupported')
            return
        except common.A_ConstraintsError:
            rec.cls('valid-rejected-by-constraints(C11)')
            return
        except common.A_EncodeError as ex:
            rec.cls('valid-rejected:' + str(ex).split(': ')[-1][:40])
            # type check rejecting a well-typed value is a C12 violation; codec-side rejections are not
            try:
                x.c._types[x.name].check_types(x.v)
            except Exception as ex2:
                x.fail('valid-value-rejected-by-type-check', 'check_types rejected a well-typed value: %s' % ex2, ex2)
            return
        except Exception:
            rec.cls('encode-crash(C01)')
            return
        nodes = list(common.walk_values(x.spec, x.ty, x.modname, x.v))
        toks = paths.value_paths(x.spec, x.ty, x.modname, x.name, x.v)
        if len(nodes) != len(toks):
            raise RuntimeError('walker mismatch')
        probes = []
        under = {}
        for i, n in enumerate(nodes[:60]):
            deep = len(toks[i]) >= 3 or (n.parent is not None and n.parent.r.base.kind in
                                         ('SEQUENCE OF', 'SET OF', 'CHOICE')) or n.in_additions \
                or any(o for _, o in toks[i])
            ua = False
            p_ = n
            while p_ is not None:
                if p_.member is not None and p_.parent is not None:
                    pb = p_.parent.r.base
                    for a in (pb.ext or []):
                        for mm in (a.members if isinstance(a, asn.Group) else [a]):
                            if mm is p_.member:
                                ua = True
                p_ = p_.parent
            under[i] = ua
            for label, nv in corruptions(n.r, n.value, x.ne):
                probes.append((i, label, nv, toks[i], deep))
            for label, nv in perturbations(n.r, n.value):
                if label.endswith(('lb-1', 'ub+1', 'alphabet')):
                    c = n.r.rng if 'size' not in label and label != 'alphabet' else n.r.size
                    if label != 'alphabet' and (c is None or c.ext):
                        continue
                    probes.append((i, 'constraint:' + label, nv, toks[i], deep))
            # missing mandatory member
            b = n.r.base
            if b.kind in ('SEQUENCE', 'SET') and isinstance(n.value, dict):
                for m in (b.root or []) + (b.root2 or []):
                    if not m.optional and not m.has_default and m.name in n.value:
                        nv = dict(n.value)
                        del nv[m.name]
                        probes.append((i, 'missing:' + m.name, nv, toks[i], deep))
                        break
        step = max(1, len(probes) // 25)
        chosen = probes[:600] if x.shard.get('directed') else probes[::step][:25]
        for (i, label, nv, tk, deep) in chosen:
            v2 = common.map_values(x.spec, x.ty, x.modname, x.v,
                                   lambda idx, r, val: nv if idx == i else NOVALUE)
            rec.cls('probe:' + label.split(':')[0].split('<-')[0])
            self.attempt(x, v2, label, tk, deep, under.get(i, False))
        self.sample(x)


CHECK = C12()
