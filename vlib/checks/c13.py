"""C13 - compiling is independent of what was compiled before from the same dictionary."""
import copy
import os
from pprint import pformat

from hypothesis import strategies as st
from hypothesis.stateful import RuleBasedStateMachine, rule, initialize, invariant, precondition

from .. import asn, common, gen, jsonio, values
from ..common import asn1tools
from ..runner import Check, Failure, exc_sig, machine_run, machine_tick, ShrinkHit

CODECS = ['ber', 'der', 'per', 'uper', 'oer', 'jer', 'xer', 'gser']


def outcome(fn, *a, **kw):
    try:
        return ('ok', fn(*a, **kw))
    except Exception as e:
        return ('exc', type(e).__name__, str(e))


def show(o):
    if o[0] == 'ok':
        v = o[1]
        return 'ok:' + (bytes(v).hex() if isinstance(v, (bytes, bytearray)) else repr(v))
    return 'exc:%s:%s' % (o[1], o[2])


def behaviour(c, probes, ne, spec, codec):
    """Observable behaviour of a compiled object on the probe set."""
    out = []
    for modname, name, ty, v in probes:
        vv = values.to_numeric_enums(spec, ty, modname, v) if ne else v
        e = outcome(c.encode, name, vv, check_types=True, check_constraints=True)
        out.append(show(e))
        if e[0] == 'ok' and codec != 'gser':
            out.append(show(outcome(c.decode, name, e[1])))
            out.append(show(outcome(c.decode, name, bytes(e[1])[:-1])))
    return out


class C13Machine(RuleBasedStateMachine):
    REC = None
    TIER = 'quick'

    def __init__(self):
        super().__init__()
        machine_tick(self)
        self.spec = None
        self.history = []
        self.compiled = []      # [(codec, ne, obj, expected behaviour)]
        self.fresh = {}

    @initialize(data=st.data())
    def setup(self, data):
        prof = gen.Profile(max_types=4, max_depth=3, real_defaults=False, components_of_rate=40, components_of_tagged=True)
        spec = data.draw(gen.specs(prof))
        self.spec = spec
        self.text = spec.text()
        try:
            self.d = asn1tools.parse_string(self.text)
        except Exception as e:
            self.REC.discarded['unparseable:%s:%s' % exc_sig(e)] += 1
            self.spec = None
            return
        vg = values.VG(data.draw, spec, values.ValCfg(max_len=12, max_depth=3))
        tops = spec.top_types()
        self.probes = []
        for (m, name, ty) in tops[:3]:
            for _ in range(2):
                self.probes.append((m.name, name, ty, vg.value(ty, m.name)))
        # deferred histories take every reference (a fresh compile_string) only after the last step, so that
        # nothing is compiled between two compile_dict calls of the history
        self.deferred = data.draw(st.booleans())
        self.pending = []
        self.REC.cls('histories-deferred' if self.deferred else 'histories')
        self.REC.cases += 1

    def fresh_behaviour(self, codec, ne):
        k = (codec, ne)
        if k not in self.fresh:
            o = outcome(asn1tools.compile_string, self.text, codec, numeric_enums=ne)
            if o[0] == 'ok':
                self.fresh[k] = ('ok', behaviour(o[1], self.probes, ne, self.spec, codec))
            else:
                self.fresh[k] = o
        return self.fresh[k]

    @precondition(lambda self: self.spec is not None and sum(1 for h in self.history if h[0] == 'compile') < 6)
    @rule(codec=st.sampled_from(CODECS), ne=st.booleans())
    def compile(self, codec, ne):
        self.history.append(('compile', codec, ne))
        o = outcome(asn1tools.compile_dict, self.d, codec, numeric_enums=ne)
        if self.deferred:
            if o[0] == 'ok':
                self.compiled.append((codec, ne, o[1], None))
            self.pending.append(('compile', codec, ne, o if o[0] != 'ok' else ('ok',), len(self.history)))
            for i, (c_, n_, obj, _) in enumerate(self.compiled):
                self.pending.append(('behaviour', c_, n_, behaviour(obj, self.probes, n_, self.spec, c_),
                                     len(self.history), i))
            return
        want = self.fresh_behaviour(codec, ne)
        self.REC.ev()
        if o[0] != 'ok':
            if want[0] == 'ok':
                self.report('compile-raises', 'compile_dict(%s, numeric_enums=%s) raised %s: %s but a fresh '
                            'compile_string succeeds' % (codec, ne, o[1], o[2]))
            return
        if want[0] != 'ok':
            self.report('compile-succeeds', 'compile_dict(%s, %s) succeeded but fresh compile_string raised %s' % (
                codec, ne, want[1]))
            return
        self.compiled.append((codec, ne, o[1], want[1]))
        self.check_all()

    @precondition(lambda self: self.spec is not None)
    @rule()
    def roundtrip_source(self):
        self.history.append(('pformat-eval',))
        try:
            self.d = eval(pformat(self.d))
        except Exception as e:
            self.report('pformat-eval-fails', 'eval(pformat(dict)) raised %s: %s' % (type(e).__name__, e))

    @precondition(lambda self: self.spec is not None)
    @rule()
    def deep_copy(self):
        self.history.append(('deepcopy',))
        self.d = copy.deepcopy(self.d)

    @precondition(lambda self: self.spec is not None)
    @rule()
    def pre_process(self):
        self.history.append(('pre_process_dict',))
        try:
            r = asn1tools.pre_process_dict(self.d)
            if isinstance(r, dict):
                self.d = r
        except Exception as e:
            self.report('pre-process-raises', 'pre_process_dict raised %s: %s' % (type(e).__name__, e))

    @rule()
    def idle(self):
        pass

    def check_all(self):
        ncomp = len(self.compiled)
        for i, (codec, ne, obj, want) in enumerate(self.compiled):
            self.REC.ev()
            got = behaviour(obj, self.probes, ne, self.spec, codec)
            if got != want:
                j = next(k for k in range(len(want)) if k >= len(got) or got[k] != want[k])
                self.report('behaviour-differs',
                            'object #%d (%s, numeric_enums=%s) after history %r: probe outcome %d is %s, a fresh '
                            'compile gives %s' % (i, codec, ne, self.history, j, got[j][:300] if j < len(got) else None,
                                                  want[j][:300]))
                return
        kinds = {(c, n) for c, n, _, _ in self.compiled}
        if len(kinds) >= 2:
            self.REC.nt(self.text, self.history)

    def report(self, kind, msg):
        case = {'spec': jsonio.spec_enc(self.spec), 'text': self.spec.texts(),
                'history': [list(h) for h in self.history], 'deferred': bool(getattr(self, 'deferred', False)),
                'probes': [[m, n, jsonio.enc(v)] for m, n, _, v in self.probes]}
        f = Failure(kind, msg, case, ['history-len-%d' % len(self.history)])
        self.REC.fail(f)
        self.spec = None      # stop this history

    def settle(self):
        """deferred histories: compare everything observed with fresh compiles, now that the history is over"""
        for p in self.pending:
            if self.spec is None:
                return
            self.REC.ev()
            codec, ne = p[1], p[2]
            want = self.fresh_behaviour(codec, ne)
            hist = self.history[:p[4]]
            if p[0] == 'compile':
                if p[3][0] != 'ok' and want[0] == 'ok':
                    self.report('compile-raises', 'compile_dict(%s, numeric_enums=%s) raised %s: %s after %r but a fresh '
                                'compile_string succeeds' % (codec, ne, p[3][1], p[3][2], hist))
                elif p[3][0] == 'ok' and want[0] != 'ok':
                    self.report('compile-succeeds', 'compile_dict(%s, %s) succeeded but fresh compile_string raised %s'
                                % (codec, ne, want[1]))
            elif want[0] == 'ok' and p[3] != want[1]:
                got, w = p[3], want[1]
                j = next(k for k in range(len(w)) if k >= len(got) or got[k] != w[k])
                self.report('behaviour-differs',
                            'object #%d (%s, numeric_enums=%s) after history %r: probe outcome %d is %s, a fresh '
                            'compile gives %s' % (p[5], codec, ne, hist, j, got[j][:300] if j < len(got) else None,
                                                  w[j][:300]))
        kinds = {(c, n) for c, n, _, _ in self.compiled}
        if self.spec is not None and len(kinds) >= 2:
            self.REC.nt(self.text, self.history, 'deferred')

    def teardown(self):
        if self.spec is not None and getattr(self, 'deferred', False) and self.pending:
            self.settle()
        if self.spec is not None and self.history and (len(self.REC.samples) < 2 or self.REC.evaluations % 20 == 0):
            self.REC.sample({'module_text': self.text, 'history': [list(h) for h in self.history],
                             'probes': len(self.probes)})


class C13(Check):
    id = 'C13'
    engine = 'hypothesis stateful'
    rule = ('histories = one parsed dict x sequences of up to 6 compile_dict(codec in 8, numeric_enums) calls '
            'interleaved with eval(pformat(d)), deepcopy and pre_process_dict steps (half of the histories take the fresh '
            'references only after the last step, so that nothing else is compiled between the calls); after every compile each '
            'object compiled so far must behave like a fresh compile_string on a probe set (encode bytes or '
            'error text, decode value, decode of truncated bytes); evaluation = one object compared; '
            'non-trivial = history with >= 2 compiles of different (codec, numeric_enums); distinct = '
            'hash(module text, history)')
    assumptions = ['behaviour is observed on 2 generated values for each of up to 3 types plus one truncated decode each']

    def shards(self, tier):
        return [{'i': i} for i in range(16)] + [{'i': 16 + j, 'directed': j} for j in range(4)]

    def directed_specs(self):
        """module sets by construction whose dictionaries are sensitive to the order and history of processing: modules
        with different tag defaults written in non-alphabetical order with COMPONENTS OF a type of the other module whose
        components carry tags without IMPLICIT/EXPLICIT; DEFAULTs of every converted kind, also through references"""
        from ..asn import Ty, Member, Group, Module, Spec, Rng, Tag
        out = []
        for d1, d2 in (('IMPLICIT', 'EXPLICIT'), ('EXPLICIT', 'IMPLICIT'), ('AUTOMATIC', '')):
            ma = Module('Alpha', d1)
            ma.types = [('A', Ty('SEQUENCE', root=[Member('a', Ty('INTEGER', tag=Tag('CONTEXT', 0, None))),
                                                   Member('b', Ty('BOOLEAN', tag=Tag('CONTEXT', 1, None)))]))]
            if d1 == 'AUTOMATIC':
                for mem in ma.types[0][1].root:
                    mem.ty.tag = None
            mz = Module('Zeta', d2)
            co = Ty('SEQUENCE', root=[Member('a', Ty('INTEGER', tag=Tag('CONTEXT', 0, None))),
                                      Member('b', Ty('BOOLEAN', tag=Tag('CONTEXT', 1, None))),
                                      Member('extra-co', Ty('BOOLEAN', tag=Tag('CONTEXT', 2, None)))])
            if d1 == 'AUTOMATIC':
                for mem in co.root:
                    mem.ty.tag = None
            co.raw = 'SEQUENCE {\n  COMPONENTS OF A,\n  extra-co %sBOOLEAN\n}' % ('' if d1 == 'AUTOMATIC' else '[2] ')
            co.raw_refs = ['A']
            mz.types = [('CO', co)]
            mz.imports = {'Alpha': ['A']}
            spec = Spec([mz, ma])       # Zeta first in the text, Alpha first alphabetically
            out.append((spec, [('Zeta', 'CO', {'a': 5, 'b': True, 'extra-co': False}),
                               ('Alpha', 'A', {'a': -1, 'b': False})]))
        m = Module('M', 'AUTOMATIC')
        m.types = [
            ('E', Ty('ENUMERATED', enum_root=[('x', 0, False), ('y', 1, False)])),
            ('F', Ty('BOOLEAN')),
            ('N', Ty('NumericString')),
            ('S', Ty('SEQUENCE', root=[
                Member('e', Ty('REF', ref='E'), has_default=True, default='y', default_txt='y'),
                Member('f', Ty('REF', ref='F'), has_default=True, default=True, default_txt='TRUE'),
                Member('n', Ty('REF', ref='N'), has_default=True, default='12', default_txt='"12"'),
                Member('b', Ty('BIT STRING'), has_default=True, default=(b'\x40', 4), default_txt="'0100'B"),
                Member('k', Ty('INTEGER'))],
                ext=[Group([Member('g', Ty('OCTET STRING'), has_default=True, default=b'\x00', default_txt="'00'H"),
                            Member('h', Ty('ENUMERATED', enum_root=[('p', 0, False), ('q', 1, False)]),
                                   has_default=True, default='q', default_txt='q')])]))]
        out.append((Spec([m]), [('M', 'S', {'k': 1}), ('M', 'S', {'e': 'x', 'f': False, 'n': '7', 'b': (b'\x80', 1), 'k': 2,
                                                                 'g': b'\x01', 'h': 'p'})]))
        return out

    def directed(self, shard, rec):
        import itertools
        ops = [['pformat-eval'], ['deepcopy'], ['pre_process_dict'], ['compile', 'ber', False], ['compile', 'der', True],
               ['compile', 'uper', False], ['compile', 'jer', True]]
        for k, (spec, probes) in enumerate(self.directed_specs()):
            if k != shard['directed']:
                continue
            pj = [[m, n, jsonio.enc(v)] for m, n, v in probes]
            sj = jsonio.spec_enc(spec)
            for n in (1, 2, 3):
                for hist in itertools.product(ops, repeat=n):
                    if not any(h[0] == 'compile' for h in hist):
                        continue
                    for deferred in ((False, True) if n < 3 else (True,)):
                        case = {'spec': sj, 'text': spec.texts(), 'history': [list(h) for h in hist],
                                'deferred': deferred, 'probes': pj}
                        rec.cases += 1
                        rec.ev()
                        self.replay(case, rec)
            rec.cls('directed-specs')

    def run_shard(self, shard, tier, seed, rec):
        if 'directed' in shard:
            if not shard.get('_shrink'):
                self.directed(shard, rec)
            return
        scale = float(os.environ.get('ASN1V_SCALE', '1'))
        n = max(1, int((20 if tier == 'quick' else 600) * scale))
        machine_run(C13Machine, seed, n, 10, rec, shrink=shard.get('_shrink', False),
                    timeout=shard.get('_timeout'))

    def replay(self, case, rec):
        spec = jsonio.spec_dec(case['spec'])
        text = spec.text()
        d = asn1tools.parse_string(text)
        probes = []
        for m, n, v in case['probes']:
            probes.append((m, n, dict(spec.by_name[m].types)[n], jsonio.dec(v)))
        compiled = []
        hist = []
        if case.get('deferred'):
            return self.replay_deferred(case, rec, spec, text, d, probes)
        for h in case['history']:
            hist.append(tuple(h))
            if h[0] == 'compile':
                codec, ne = h[1], h[2]
                o = outcome(asn1tools.compile_dict, d, codec, numeric_enums=ne)
                fr = outcome(asn1tools.compile_string, text, codec, numeric_enums=ne)
                if o[0] != fr[0]:
                    rec.fail(Failure('compile-outcome', 'compile_dict %s vs fresh %s' % (o[:2], fr[:2]), case))
                    return
                if o[0] == 'ok':
                    compiled.append((codec, ne, o[1], behaviour(fr[1], probes, ne, spec, codec)))
                for i, (c, n_, obj, want) in enumerate(compiled):
                    got = behaviour(obj, probes, n_, spec, c)
                    if got != want:
                        rec.fail(Failure('behaviour-differs', 'object #%d (%s,%s) differs from fresh compile after %r'
                                         % (i, c, n_, hist), case))
                        return
            elif h[0] == 'pformat-eval':
                d = eval(pformat(d))
            elif h[0] == 'deepcopy':
                d = copy.deepcopy(d)
            elif h[0] == 'pre_process_dict':
                r = asn1tools.pre_process_dict(d)
                d = r if isinstance(r, dict) else d

    def replay_deferred(self, case, rec, spec, text, d, probes):
        compiled = []
        seen = []
        for h in case['history']:
            if h[0] == 'compile':
                codec, ne = h[1], h[2]
                o = outcome(asn1tools.compile_dict, d, codec, numeric_enums=ne)
                seen.append(('compile', codec, ne, o[0]))
                if o[0] == 'ok':
                    compiled.append((codec, ne, o[1]))
                for (c, n_, obj) in compiled:
                    seen.append(('behaviour', c, n_, behaviour(obj, probes, n_, spec, c)))
            elif h[0] == 'pformat-eval':
                d = eval(pformat(d))
            elif h[0] == 'deepcopy':
                d = copy.deepcopy(d)
            elif h[0] == 'pre_process_dict':
                r = asn1tools.pre_process_dict(d)
                d = r if isinstance(r, dict) else d
        fresh = {}
        for p in seen:
            k = (p[1], p[2])
            if k not in fresh:
                fr = outcome(asn1tools.compile_string, text, p[1], numeric_enums=p[2])
                fresh[k] = (fr[0], behaviour(fr[1], probes, p[2], spec, p[1]) if fr[0] == 'ok' else None)
            if p[0] == 'compile':
                if (p[3] == 'ok') != (fresh[k][0] == 'ok'):
                    rec.fail(Failure('compile-outcome', 'compile_dict %s vs fresh %s' % (p[3], fresh[k][0]), case))
                    return
            elif fresh[k][0] == 'ok' and p[3] != fresh[k][1]:
                rec.fail(Failure('behaviour-differs', 'object (%s,%s) differs from fresh compile (deferred history)'
                                 % (p[1], p[2]), case))
                return


CHECK = C13()
