"""C14 - parsing depends only on the token sequence, not on comments or white-space."""
import glob
import os
import re

from hypothesis import strategies as st

from .. import common, env, gen, jsonio, lexer
from ..common import asn1tools
from ..runner import Check, Failure, exc_sig, hyp_run, watchdog, CaseHang
from .c13 import outcome

SEPS = [' ', '\n', '\t', '\r\n', '  ', '\n\n', ' \t ',
        ' -- a comment --\n', ' -- a comment\n', ' --x-- ', ' -- "quoted" \' /* not block -- ',
        ' /* block */ ', ' /* multi\nline\nblock */ ', ' /* outer /* nested */ still */ ',
        ' /* has -- dashes and "quotes" */ ', ' /* 5" wide */ ', " /* it's one \" and ' */ ",
        ' -- one " quote --\n', ' -- it\'s\n', '\n-- full line comment\n', ' /**/ ', '\n/*\n*/\n', ' --\n',
        # nested block comments spread over several lines (the line count must survive every nesting level)
        ' /* outer\n /* nested\n */ still\n */ ', '\n/* a\n\n/* b */\n/* c\n*/ d */\n',
        ' /* 1 /* 2\n /* 3 */\n */\n */ ', ' /*\n/**/\n*/ ', ' /* x -- y\n /* z */ -- w\n */ ',
        # CRLF line ends: they end a line comment and count as one line
        ' -- a comment\r\n', '\r\n-- full line comment\r\n', ' --\r\n', ' /* a\r\n b */ ', '\r\n\r\n']
MULTI = [('OCTET', 'STRING'), ('BIT', 'STRING'), ('OBJECT', 'IDENTIFIER'), ('WITH', 'COMPONENTS'),
         ('WITH', 'COMPONENT'), ('COMPONENTS', 'OF'), ('EXTENSIBILITY', 'IMPLIED'), ('DEFINED', 'BY'),
         ('ANY', 'DEFINED'), ('WITH', 'SYNTAX'), ('CONSTRAINED', 'BY')]
LINECOL = re.compile(r'at line (\d+), column (\d+)')


def corpus():
    files = sorted(glob.glob(os.path.join(env.REPO, 'tests', 'files', '**', '*.asn'), recursive=True))
    return files


def layout(tokens, seps):
    """join tokens with separators; returns text and the (start, end) span of every token"""
    parts = []
    spans = []
    pos = 0
    for i, t in enumerate(tokens):
        if i > 0:
            s = seps[i - 1]
            parts.append(s)
            pos += len(s)
        spans.append((pos, pos + len(t)))
        parts.append(t)
        pos += len(t)
    parts.append('\n')
    return ''.join(parts), spans


def token_index(spans, offset):
    """number of tokens that end at or before offset"""
    k = 0
    for (a, b) in spans:
        if b <= offset:
            k += 1
        else:
            break
    return k


def offset_of(text, line, col):
    lines = text.split('\n')
    return sum(len(l) + 1 for l in lines[:line - 1]) + (col - 1)


def line_of(text, offset):
    return text.count('\n', 0, offset) + 1


@st.composite
def seps_for(draw, tokens, rich):
    n = len(tokens) - 1
    if n <= 0:
        return []
    # mostly plain, some boundaries get a drawn separator
    k = draw(st.integers(1, min(n, 12 if rich else 6)))
    idx = draw(st.lists(st.integers(0, n - 1), min_size=k, max_size=k))
    # always include the boundaries inside multi-word keywords
    multi = [i for i in range(n) if (tokens[i], tokens[i + 1]) in MULTI]
    chosen = {}
    for i in idx + multi[:8]:
        chosen[i] = draw(st.sampled_from(SEPS))
    base = draw(st.sampled_from([' ', '\n', '\r\n']))
    nl = '\r\n' if base == '\r\n' else '\n'
    if nl == '\r\n':
        # a text with CRLF line ends throughout (as read from a file in binary mode / received over the wire)
        chosen = {i: s_.replace('\r\n', '\n').replace('\n', '\r\n') for i, s_ in chosen.items()}
    return [chosen.get(i, base if i % 7 else nl) for i in range(n)]


class C14(Check):
    id = 'C14'
    rule = ('texts = every tests/files/**/*.asn that lexes, plus generated modules (incl. string literals containing '
            '"--" and "/*"); each text is tokenised by an independent conservative lexer and re-laid-out twice: plain '
            '(single spaces/newlines) and with drawn separators (spaces, tabs, CRLF, "-- c --", "-- c<nl>", nestable '
            '/* */ with quotes and dashes inside) at drawn token boundaries and inside every multi-word keyword; '
            'oracle: parse_string(layout A) == parse_string(layout B), same accept/reject; with one token replaced by an '
            'illegal one, both raise ParseError blaming the same token and the reported line is the line of that token '
            'in the text given; evaluation = one layout pair; non-trivial = a comment was inserted next to a keyword, '
            'literal or bracket; distinct = hash(text, separators)')
    assumptions = ['vlib/lexer.py is conservative: items it cannot classify are kept atomic; texts it cannot lex are skipped '
                   'and counted']

    def shards(self, tier):
        files = corpus()
        out = []
        for i in range(16):
            out.append({'i': i, 'files': [os.path.relpath(f, env.REPO) for f in files[i::16]]})
        return out

    def compare(self, rec, name, tokens, seps, rich, text_hint=None):
        """plain layout vs drawn layout of the same token sequence"""
        plain, spans0 = layout(tokens, [' ' if (i + 1) % 8 else '\n' for i in range(len(tokens) - 1)])
        text, spans = layout(tokens, seps)
        case = {'name': name, 'tokens': tokens if len(tokens) < 400 else None, 'text': [text[:20000]],
                'plain': plain[:20000], 'seps': seps if len(seps) < 400 else None}
        rec.ev()
        with watchdog(300):
            a = outcome(asn1tools.parse_string, plain)
            b = outcome(asn1tools.parse_string, text)
        feats = sorted({s.strip()[:2] or 'ws' for s in seps})
        if a[0] != b[0]:
            rec.fail(Failure('accept-reject-differs', '%s: plain layout %s, re-laid-out text %s' % (
                name, a[0] if a[0] == 'ok' else a[1:3], b[0] if b[0] == 'ok' else (b[1], b[2][:200])), case, feats))
            return None
        if a[0] == 'ok':
            if a[1] != b[1]:
                rec.fail(Failure('parse-result-differs', '%s: parse_string results differ between layouts' % name,
                                 case, feats))
                return None
            rec.cls('accepted-equal')
        else:
            rec.cls('rejected-both')
        if any(('--' in s or '/*' in s) for s in seps):
            rec.nt(name, jsonio.h(plain), seps)
        if len(rec.samples) < 2:
            rec.sample({'name': name, 'relayout_head': text[:400]})
        return a[0]

    def literal(self, rec, tokens, seps):
        """comment delimiters inside a character string literal are literal text"""
        text, _ = layout(tokens, seps)
        rec.ev()
        r = outcome(asn1tools.parse_string, text)
        case = {'name': 'generated+literal', 'tokens': tokens if len(tokens) < 400 else None, 'text': [text[:20000]],
                'plain': text[:20000], 'seps': seps if len(seps) < 400 else None, 'literal': True}
        if r[0] != 'ok':
            rec.fail(Failure('literal-treated-as-comment', 'module with FROM("a--b" | "/*" | "x") does not parse: %s'
                             % (r[2][:200],), case))
            return
        want = [('a', 'a'), ('-', '-'), ('-', '-'), ('b', 'b'), ('/', '/'), ('*', '*'), ('x', 'x')]
        for m in r[1].values():
            t = m['types'].get('Cmt-Str')
            if t is not None and t.get('from') != want:
                rec.fail(Failure('literal-changed', 'FROM("a--b" | "/*" | "x") parsed as %r' % (t.get('from'),), case))
                return
        rec.cls('literal-ok')

    def error_position(self, rec, name, tokens, seps, k):
        """replace token k by an illegal item; both layouts must blame the same token, on its own line"""
        bad = list(tokens)
        bad[k] = '?!?'
        plain, spans0 = layout(bad, [' ' if (i + 1) % 8 else '\n' for i in range(len(bad) - 1)])
        text, spans = layout(bad, seps)
        rec.ev()
        a = outcome(asn1tools.parse_string, plain)
        b = outcome(asn1tools.parse_string, text)
        case = {'name': name, 'tokens': bad if len(bad) < 400 else None, 'text': [text[:20000]], 'plain': plain[:20000],
                'seps': seps if len(seps) < 400 else None, 'bad_token': k}
        if a[0] == 'ok' or b[0] == 'ok' or a[1] != 'ParseError' or b[1] != 'ParseError':
            if a[0] != b[0] or (a[0] != 'ok' and a[1] != b[1]):
                rec.fail(Failure('error-outcome-differs', '%s with an illegal token: plain %s vs re-laid-out %s' % (
                    name, a[:2], b[:2]), case))
            else:
                rec.cls('illegal-token-not-rejected-as-ParseError')
            return
        ma, mb = LINECOL.search(a[2]), LINECOL.search(b[2])
        if not ma or not mb:
            rec.cls('no-position-in-message')
            return
        la, ca = int(ma.group(1)), int(ma.group(2))
        lb, cb = int(mb.group(1)), int(mb.group(2))
        ia = token_index(spans0, offset_of(plain, la, ca))
        # lines on which the blamed item (or the end of the previous one) sits in the re-laid-out text
        ok_lines = set()
        if ia < len(spans):
            ok_lines.add(line_of(text, spans[ia][0]))
        if ia > 0:
            ok_lines.add(line_of(text, spans[ia - 1][1]))
        if lb not in ok_lines:
            rec.fail(Failure('error-line-wrong', '%s: illegal token #%d; plain layout blames token #%d; re-laid-out text '
                             'reports line %d but that token is on line(s) %s' % (name, k, ia, lb, sorted(ok_lines)),
                             case))
            return
        rec.cls('error-line-ok')

    def run_shard(self, shard, tier, seed, rec):
        scale = float(os.environ.get('ASN1V_SCALE', '1'))
        rich = tier == 'thorough'
        # 1. fixture corpus
        texts = []
        for rel in shard['files']:
            p = os.path.join(env.REPO, rel)
            try:
                t = open(p, encoding='utf-8', errors='replace').read()
                toks = lexer.lex(t)
            except (lexer.LexError, OSError):
                rec.discarded['unlexable-fixture'] += 1
                continue
            if tier == 'quick' and len(toks) > 6000:
                rec.discarded['fixture-too-large-for-quick'] += 1
                continue
            texts.append((rel, toks))
        nlay = 1 if tier == 'quick' else 4

        prof = gen.Profile(max_types=4, max_depth=3)

        @st.composite
        def cases(draw):
            if texts and draw(st.integers(0, 99)) < (35 if tier == 'quick' else 50):
                name, toks = texts[draw(st.integers(0, len(texts) - 1))]
            else:
                spec = draw(gen.specs(prof))
                t = spec.text()
                if draw(st.booleans()):
                    t = t.replace('END\n', 'Cmt-Str ::= IA5String (FROM("a--b" | "/*" | "x"))\nEND\n', 1)
                    name, toks = 'generated+literal', lexer.lex(t)
                else:
                    name, toks = 'generated', lexer.lex(t)
            seps = draw(seps_for(toks, rich))
            k = draw(st.integers(0, max(0, len(toks) - 1)))
            return name, toks, seps, k

        def body(case, rec):
            name, toks, seps, k = case
            rec.cls('fixture' if not name.startswith('generated') else name)
            try:
                r = self.compare(rec, name, toks, seps, rich)
                if name == 'generated+literal':
                    self.literal(rec, toks, seps)
                if r == 'ok' and len(toks) < 3000:
                    self.error_position(rec, name, toks, seps, k)
            except CaseHang:
                rec.notes['parse-hang'] += 1
        n = max(1, int((14 if tier == 'quick' else 300) * scale))
        hyp_run(cases(), body, seed, n, rec, shrink=shard.get('_shrink', False), timeout=shard.get('_timeout'))

    def replay(self, case, rec):
        text = case['text'][0]
        plain = case['plain']
        if case.get('literal'):
            self.literal(rec, case['tokens'], case['seps'])
            return
        a = outcome(asn1tools.parse_string, plain)
        b = outcome(asn1tools.parse_string, text)
        if 'bad_token' in case:
            toks, seps, k = case['tokens'], case['seps'], case['bad_token']
            good = list(toks)
            self.error_position(rec, case['name'], good, seps, k) if False else None
            if a[0] != 'ok' and b[0] != 'ok' and a[1] == b[1] == 'ParseError':
                _, spans0 = layout(toks, [' ' if (i + 1) % 8 else '\n' for i in range(len(toks) - 1)])
                _, spans = layout(toks, seps)
                ma, mb = LINECOL.search(a[2]), LINECOL.search(b[2])
                ia = token_index(spans0, offset_of(plain, int(ma.group(1)), int(ma.group(2))))
                ok_lines = set()
                if ia < len(spans):
                    ok_lines.add(line_of(text, spans[ia][0]))
                if ia > 0:
                    ok_lines.add(line_of(text, spans[ia - 1][1]))
                if int(mb.group(1)) not in ok_lines:
                    rec.fail(Failure('error-line-wrong', 'reported line %s, token on %s' % (mb.group(1), sorted(ok_lines)), case))
            elif a[0] != b[0]:
                rec.fail(Failure('error-outcome-differs', 'outcomes differ', case))
            return
        if a[0] != b[0]:
            rec.fail(Failure('accept-reject-differs', 'plain %s vs re-laid-out %s' % (a[0], b[:3]), case))
        elif a[0] == 'ok' and a[1] != b[1]:
            rec.fail(Failure('parse-result-differs', 'results differ', case))


CHECK = C14()
