"""C15 - BER/DER framing helpers agree with the decoder on where a message ends."""
from hypothesis import strategies as st

from .. import aeq, asn, common, gen, jsonio, values
from ..common import SpecValueCheck


def header_len(m):
    """Independent identifier+length octet count of a definite-length TLV (X.690 8.1.2/8.1.3)."""
    i = 0
    b = m[i]
    i += 1
    if b & 0x1f == 0x1f:
        while m[i] & 0x80:
            i += 1
        i += 1
    L = m[i]
    i += 1
    if L & 0x80:
        n = L & 0x7f
        if n == 0:
            raise ValueError('indefinite')
        i += n
    return i


TAILS = [b'', b'\x00\x00', b'\x80', b'\xff' * 3, b'\x30\x00', b'\x1f', b'\x02\x01', b'\x00']


class C15(SpecValueCheck):
    id = 'C15'
    codecs = ['ber', 'der']
    quick_n = 50
    thorough_n = 1500
    rule = ('cases = generated modules x types (top-level tags of every class, numbers up to 2^28) x values '
            '(content lengths up to 70000 in thorough) x codec in {ber,der}; per case: decode_with_length on '
            'message+tail for 3 tails, and decode_length on EVERY prefix of the header region plus sampled '
            'longer prefixes; evaluation = one helper call; non-trivial = header >= 3 octets or non-empty '
            'tail; distinct = hash(encoding, tail / prefix length)')
    assumptions = ['header length is computed by an independent X.690 identifier/length reader',
                   'values the library rejects or declares unsupported are skipped and counted']

    def profile(self, tier, shard):
        p = super().profile(tier, shard)
        p.top_tags = True
        return p

    def shards(self, tier):
        out = super().shards(tier)
        for i, s in enumerate(out):
            s['bigtag'] = (i % 3 == 2)
        return out

    def run_shard(self, shard, tier, seed, rec):
        # force a top-level tag with a large number / long content on some shards
        self._shard = shard
        return super().run_shard(shard, tier, seed, rec)

    def directed(self, tier, shard):
        """top-level tags of every class with numbers up to 2^28 x content lengths 0..70000"""
        from ..asn import Ty, Member, Module, Spec, Rng, Tag
        m = Module('M', 'IMPLICIT')
        cases = []
        i = 0
        for cls in ('CONTEXT', 'APPLICATION', 'PRIVATE'):
            for num in (0, 30, 31, 127, 128, 16383, 16384, 2 ** 21 - 1, 2 ** 21, 2 ** 28 - 1, 2 ** 28):
                i += 1
                for mode in ('IMPLICIT', 'EXPLICIT'):
                    name = 'T%d%s' % (i, mode[0])
                    m.types.append((name, Ty('OCTET STRING', tag=Tag(cls, num, mode))))
                    lens = [0, 1, 126, 127, 128, 255, 256, 65535, 65536] if tier == 'quick' else \
                        [0, 1, 120, 125, 126, 127, 128, 250, 255, 256, 65530, 65535, 65536, 70000]
                    cases.append((name, [b'\x77' * n for n in lens]))
        # an absent OPTIONAL / DEFAULT component with a tag of three or more octets followed by fewer octets than that
        # tag is long: where the message ends must not depend on how many bytes follow it
        for j, num in enumerate((128, 5000, 20000, 3000000)):
            big = Tag('CONTEXT', num, None)
            m.types.append(('Q%da' % j, Ty('SEQUENCE', root=[Member('a', Ty('INTEGER', tag=big), optional=True),
                                                              Member('b', Ty('NULL'))])))
            cases.append(('Q%da' % j, [{'b': None}, {'a': 5, 'b': None}]))
            m.types.append(('Q%db' % j, Ty('SEQUENCE', root=[
                Member('a', Ty('BOOLEAN', tag=Tag('CONTEXT', num, 'EXPLICIT')), has_default=True, default=True,
                       default_txt='TRUE'), Member('b', Ty('BOOLEAN', tag=Tag('CONTEXT', 0, None)))])))
            cases.append(('Q%db' % j, [{'a': True, 'b': False}, {'a': False, 'b': True}]))
            m.types.append(('Q%dc' % j, Ty('SET', root=[Member('a', Ty('INTEGER', tag=big), optional=True),
                                                         Member('b', Ty('INTEGER', tag=Tag('CONTEXT', 1, None)))])))
            cases.append(('Q%dc' % j, [{'b': 3}, {'a': -1, 'b': 3}]))
            m.types.append(('Q%dd' % j, Ty('SEQUENCE', root=[Member('a', Ty('INTEGER', tag=big), optional=True),
                                                              Member('b', Ty('OCTET STRING'))])))
            cases.append(('Q%dd' % j, [{'b': b''}, {'b': b'\x5a'}, {'b': b'\x5a' * 300}]))
        spec = Spec([m])
        return [(spec, [('M', name, vals)]) for name, vals in cases]

    def oracle(self, x):
        m = x.encode()
        if m is None:
            return
        m = bytes(m)
        try:
            d0 = x.c.decode(x.name, m)
        except Exception as ex0:
            # the decoder rejects the library's own output (C01's business) - unless the framing helper accepts the
            # very same message once enough bytes follow it: then the two disagree about where the message ends
            x.rec.ev()
            try:
                d, length = x.c.decode_with_length(x.name, m + b'\x00' * 16)
            except Exception:
                x.rec.cls('own-output-undecodable(C01)')
                return
            x.fail('helper-disagrees-with-decoder', 'decode(m) raised %s: %s but decode_with_length(m + 16 zero octets) '
                   'returned length %d of %d; m=%s' % (type(ex0).__name__, str(ex0)[:100], length, len(m),
                                                       m.hex()[:120]), tail='00' * 16)
            return
        n = len(m)
        try:
            h = header_len(m)
        except (ValueError, IndexError):
            x.rec.cls('not-definite')
            return
        cfg = aeq.EqCfg(numeric_enums=x.ne)
        # decode_with_length with tails
        idx = (n + len(x.name)) % len(TAILS)
        for tail in (TAILS[idx], TAILS[(idx + 3) % len(TAILS)], m[: (n % 7)]):
            x.rec.ev()
            try:
                d, length = x.c.decode_with_length(x.name, m + tail)
            except Exception as ex:
                x.fail('decode-with-length-raised', 'decode_with_length(m+%s) raised %s: %s; m=%s' % (
                    tail.hex(), type(ex).__name__, ex, m.hex()[:120]), ex, tail=tail.hex())
                return
            if length != n:
                x.fail('wrong-length', 'decode_with_length returned length %d, message is %d bytes (tail %s, m=%s)' % (
                    length, n, tail.hex(), m.hex()[:120]), tail=tail.hex())
                return
            diff = aeq.aeq(x.spec, x.ty, x.modname, d0, d, cfg)
            if diff:
                x.fail('wrong-value', 'decode_with_length value differs from decode(m): %s' % diff, tail=tail.hex())
                return
            if h >= 3 or tail:
                x.rec.nt(m.hex(), 'tail', tail.hex())
        # decode_length on prefixes
        full = m + TAILS[(idx + 1) % len(TAILS)] + b'\x01\x02'
        ks = list(range(0, min(n, h + 4) + 1))
        ks += [n - 1, n, n + 1, len(full)] + [h + (n - h) // 2]
        for k in sorted(set(k for k in ks if 0 <= k <= len(full))):
            x.rec.ev()
            try:
                got = x.c.decode_length(full[:k])
            except Exception as ex:
                x.fail('decode-length-raised', 'decode_length(m[:%d]) raised %s: %s; m=%s h=%d' % (
                    k, type(ex).__name__, ex, m.hex()[:60], h), ex, prefix=k)
                return
            want = n if k >= h else None
            if got != want:
                x.fail('decode-length-wrong', 'decode_length(prefix of %d bytes) = %r, expected %r (header %d, '
                       'message %d bytes, m=%s)' % (k, got, want, h, n, m.hex()[:60]), prefix=k)
                return
            if h >= 3:
                x.rec.nt(m.hex(), 'prefix', k)
        x.rec.cls('header-len-%d' % min(h, 8))
        self.sample(x, encoded=m.hex()[:120], header_len=h)


CHECK = C15()
