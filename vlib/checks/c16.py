"""C16 - a truncated encoding is a decode error, never a value."""
from .. import common, jsonio
from ..common import SpecValueCheck

FOREIGN_OK = ()


def prefix_lengths(n):
    if n <= 512:
        return list(range(n))
    ks = list(range(256)) + list(range(n - 16, n))
    step = max(1, (n - 272) // 64)
    ks += list(range(256, n - 16, step))[:64]
    # cuts around 16K fragment boundaries (PER length fragmentation) and 64K
    for base in range(16384, n + 16384, 16384):
        for d in range(-2, 8):
            ks.append(base + d)
    return sorted(set(k for k in ks if 0 <= k < n))


def directed_big(codec):
    """Types whose values need length fragmentation / long lengths, built by construction."""
    from ..asn import Ty, Member, Module, Spec, Rng
    m = Module('M', 'AUTOMATIC')
    m.types = [
        ('O', Ty('OCTET STRING')),
        ('B', Ty('BIT STRING')),
        ('I', Ty('IA5String')),
        ('L', Ty('SEQUENCE OF', elem=Ty('BOOLEAN'))),
        ('S', Ty('SEQUENCE', root=[Member('a', Ty('OCTET STRING')), Member('b', Ty('BOOLEAN'))])),
        ('U', Ty('UTF8String')),
    ]
    spec = Spec([m])
    items = []
    for n in (16383, 16384, 16385, 32768, 49153, 65536, 70000):
        items.append(('O', [b'\x5a' * n]))
        items.append(('S', [{'a': b'\xa5' * n, 'b': True}]))
    for n in (16384, 16385, 65537):
        items.append(('B', [(b'\xff' * ((n + 7) // 8), n)]))
        items.append(('I', ['x' * n]))
        items.append(('U', ['y' * n]))
    for n in (16384, 16390, 32768):
        items.append(('L', [[True, False] * (n // 2)]))
    return [(spec, [('M', name, vals)]) for name, vals in items]


class C16(SpecValueCheck):
    id = 'C16'
    codecs = ['ber', 'der', 'per', 'uper', 'oer']
    quick_n = 25
    thorough_n = 600
    rule = ('cases = generated modules x types x values x codec in {ber,der,per,uper,oer} x EVERY strict '
            'byte-prefix of the library\'s own encoding (all k < 512, sampled beyond); evaluation = one '
            'decode of one prefix; non-trivial = prefix of an encoding of >= 3 bytes cut at k >= 1; '
            'distinct = hash(module text, type, codec, encoding, k)')
    assumptions = ['the encoders emit no byte their decoder does not need (empty encodings have no strict prefix)',
                   'values the library rejects or declares unsupported are skipped and counted']

    def directed(self, tier, shard):
        return directed_big(shard['codec'])

    def oracle(self, x):
        e = x.encode()
        if e is None or len(e) == 0:
            x.rec.cls('no-prefix')
            return
        n = len(e)
        text = None
        for k in prefix_lengths(n):
            x.rec.ev()
            cut = e[:k]
            try:
                d = x.c.decode(x.name, cut)
            except common.A_DecodeError:
                x.rec.cls('decode-error')
                if n >= 3 and k >= 1:
                    if text is None:
                        text = x.spec.text()
                    x.rec.nt(x.codec, x.name, text, e.hex(), k)
                continue
            except Exception as ex:
                x.fail('foreign-exception', 'decode(%s[:%d] of %d) raised %s: %s (not asn1tools.DecodeError)' % (
                    e.hex()[:120], k, n, type(ex).__name__, ex), ex, prefix=k, encoded=e.hex())
                return
            x.fail('prefix-decoded', 'decode(%s[:%d] of %d bytes) returned %s instead of raising' % (
                e.hex()[:120], k, n, common.short(d, 200)), prefix=k, encoded=e.hex())
            return
        self.sample(x, encoded=e.hex()[:200], prefixes=len(prefix_lengths(n)))


CHECK = C16()
