"""C17 - the compile cache is transparent."""
import os
import shutil
import subprocess
import sys
import tempfile

from hypothesis import strategies as st
from hypothesis.stateful import RuleBasedStateMachine, rule, initialize, precondition

from .. import common, env, jsonio
from ..common import asn1tools
from ..runner import Check, Failure, exc_sig, machine_run, machine_tick, watchdog, CaseHang
from .c13 import outcome, show

T1 = ('Foo DEFINITIONS AUTOMATIC TAGS ::= BEGIN\nA ::= SEQUENCE { e ENUMERATED { x, y } DEFAULT y, n INTEGER (0..7) }\n'
      'E ::= ENUMERATED { red(1), green(5) }\nEND\n')
T1B = T1.replace('(0..7)', '(0..255)')
T2 = 'Bar DEFINITIONS ::= BEGIN\nB ::= SEQUENCE OF INTEGER\nC ::= ENUMERATED { on, off }\nEND\n'
T3 = ('Fie-Mod DEFINITIONS ::= BEGIN\nFie ::= SEQUENCE {\n  bar INTEGER,\n  fum ANY DEFINED BY bar\n}\nEND\n')
K = T1.index('INTEGER') + 4
# near twins: texts that mean something different but collide under a lossy cache key (same length; same multiset of
# characters; equal up to letter case; equal except in the last line; equal up to white-space, where the white-space
# ends a comment or sits inside a character string)
T1C = T1.replace('(0..7)', '(0..9)')
T1D = T1.replace('(0..7)', '(0..17)')
T1E = T1.replace('(0..7)', '(0..71)')
T1F = T1.replace('green(5)', 'greeN(5)')
T2B = T2.replace('off', 'ofg')
T4 = ('Ws DEFINITIONS AUTOMATIC TAGS ::= BEGIN\nW ::= SEQUENCE { a INTEGER -- , b BOOLEAN\n'
      ', s IA5String DEFAULT "x y" }\nEND\n')
T4W = ('Ws DEFINITIONS AUTOMATIC TAGS ::= BEGIN\nW ::= SEQUENCE { a INTEGER --\n , b BOOLEAN '
       ', s IA5String DEFAULT "x  y" }\nEND\n')
# one type name defined (differently) in three modules: it is in none of them reachable by bare name
T5 = 'Dup1 DEFINITIONS ::= BEGIN\nX ::= INTEGER\nY ::= BOOLEAN\nEND\n'
T6 = 'Dup2 DEFINITIONS ::= BEGIN\nX ::= BOOLEAN\nY ::= INTEGER\nEND\n'
T7 = 'Dup3 DEFINITIONS ::= BEGIN\nX ::= REAL\nEND\n'
assert T4.split() == T4W.split() and sorted(T1D) == sorted(T1E) and len(T1) == len(T1C)
POOL = {'T1': T1, 'T1B': T1B, 'T2': T2, 'T3': T3, 'T1-head': T1[:K], 'T1-tail': T1[K:], 'EMPTY': '',
        'T1C': T1C, 'T1D': T1D, 'T1E': T1E, 'T1F': T1F, 'T2B': T2B, 'T4': T4, 'T4W': T4W, 'T5': T5, 'T6': T6, 'T7': T7}
TWINS = {'T1': ['T1B', 'T1C', 'T1F'], 'T1B': ['T1'], 'T1C': ['T1'], 'T1D': ['T1E'], 'T1E': ['T1D'], 'T1F': ['T1'],
         'T2': ['T2B', 'T1'], 'T2B': ['T2'], 'T3': ['T2'], 'T4': ['T4W'], 'T4W': ['T4']}
WRITE_POOL = ['T1', 'T1', 'T1B', 'T2', 'T2', 'T3', 'T3', 'T1-head', 'T1-tail', 'EMPTY', 'T1C', 'T1D', 'T1E', 'T1F', 'T2B',
              'T4', 'T4', 'T4W', 'T5', 'T6', 'T7']
ADB = {('Fie-Mod', 'Fie', 'fum'): {0: 'NULL', 1: 'INTEGER'}}
ADB2 = {('Fie-Mod', 'Fie', 'fum'): {0: 'BOOLEAN', 1: 'NULL'}}
CODECS = ['ber', 'der', 'per', 'uper', 'oer', 'jer', 'xer', 'gser']
PROBES = [('A', {'n': 3}), ('A', {'e': 'x', 'n': 7}), ('A', {'e': 0, 'n': 0}), ('A', {'n': 200}),
          ('E', 'green'), ('E', 5), ('B', [1, -2]), ('C', 'off'), ('C', 1),
          ('A', {'n': 9}), ('A', {'n': 17}), ('A', {'n': 71}), ('E', 'greeN'), ('C', 'ofg'),
          ('W', {'a': 1}), ('W', {'a': 1, 'b': True}), ('X', 5), ('X', True), ('X', 1.5), ('Y', 5), ('Y', True),
          ('Fie', {'bar': 0, 'fum': None}), ('Fie', {'bar': 1, 'fum': 5}), ('Fie', {'bar': 0, 'fum': True}),
          ('Fie', {'bar': 1, 'fum': b'\x05\x00'})]


def behaviour(c):
    out = []
    for name, v in PROBES:
        e = outcome(c.encode, name, v, check_constraints=True)
        out.append(show(e)[:200] if e[0] == 'ok' else 'exc:' + e[1])
        if e[0] == 'ok':
            d = outcome(c.decode, name, e[1])
            out.append(show(d)[:200] if d[0] == 'ok' else 'exc:' + d[1])
    return out


CHILD = r'''
import sys, os, signal
sys.path.insert(0, %(repo)r)
n = int(sys.argv[1])
count = [0]
def prof(frame, event, arg):
    if event in ('call', 'c_call'):
        fn = frame.f_code.co_filename
        if 'diskcache' in fn or 'sqlite3' in fn:
            count[0] += 1
            if count[0] == n:
                os.kill(os.getpid(), signal.SIGKILL)
import asn1tools
files = sys.argv[4:]
sys.setprofile(prof)
asn1tools.compile_files(files, sys.argv[2], cache_dir=sys.argv[3], numeric_enums=False)
sys.setprofile(None)
print('completed', count[0])
'''


CACHED_CHILD = r'''
import sys, json
sys.path.insert(0, %(repo)r)
sys.path.insert(1, %(verif)r)
from vlib.checks import c17
import asn1tools
args = json.loads(sys.argv[1])
table = {'ADB': c17.ADB, 'ADB2': c17.ADB2}.get(args['adb'])
try:
    c = asn1tools.compile_files(args['files'], args['codec'], any_defined_by_choices=table,
                                cache_dir=args['cache'], numeric_enums=args['ne'])
except Exception as e:
    print(json.dumps(['exc', type(e).__name__, str(e)[:300]]))
    sys.exit(0)
try:
    print(json.dumps(['ok', c17.behaviour(c)]))
except Exception as e:
    print(json.dumps(['broken', type(e).__name__, str(e)[:300]]))
'''


def cached_compile(workdir, files, codec, ne, adb, cache):
    """compile_files with the cache in a fresh process (as a later run of a user's program would)."""
    import json
    script = os.path.join(workdir, 'cached_child.py')
    if not os.path.exists(script):
        with open(script, 'w') as f:
            f.write(CACHED_CHILD % {'repo': env.REPO, 'verif': env.VERIF_DIR})
    arg = json.dumps({'files': files, 'codec': codec, 'ne': ne, 'adb': adb, 'cache': cache})
    try:
        r = subprocess.run([sys.executable, script, arg], capture_output=True, timeout=120,
                           env=dict(os.environ, PYTHONHASHSEED='0'))
    except subprocess.TimeoutExpired:
        return ['timeout']
    if r.returncode != 0:
        return ['crash', r.returncode, r.stderr.decode('utf-8', 'replace')[-300:]]
    try:
        return json.loads(r.stdout.decode().strip().splitlines()[-1])
    except Exception:
        return ['crash', 0, r.stdout.decode('utf-8', 'replace')[-200:]]


class C17Machine(RuleBasedStateMachine):
    REC = None
    BASE = None

    def __init__(self):
        super().__init__()
        machine_tick(self)
        base = self.BASE or os.environ.get('TMPDIR', '/tmp')
        self.dir = tempfile.mkdtemp(prefix='asn1v-c17-', dir=base)
        self.cache = os.path.join(self.dir, 'cache')
        self.files = {}
        self.history = []
        self.damaged = False
        self.ok = True
        self.hits = set()
        self.last = None
        self.interesting = False
        self.REC.cases += 1

    def path(self, slot):
        return os.path.join(self.dir, slot + '.asn')

    @rule(slot=st.sampled_from(['f1', 'f2', 'f3']), text=st.sampled_from(WRITE_POOL))
    def write_file(self, slot, text):
        with open(self.path(slot), 'w') as f:
            f.write(POOL[text])
        self.files[slot] = text
        self.history.append(['write', slot, text])

    @precondition(lambda self: self.ok and self.last is not None)
    @rule(data=st.data(), what=st.sampled_from(['ne', 'adb', 'codec', 'text', 'order', 'same']))
    def recompile_variation(self, data, what):
        """the previous compile again with exactly one thing changed: the cache must tell them apart"""
        chosen, codec, ne, adb = self.last
        chosen = list(chosen)
        if what == 'ne':
            ne = not ne
        elif what == 'adb':
            if not any(self.files[s] == 'T3' for s in chosen):
                self.write_file(chosen[0], 'T3')
            if data.draw(st.booleans()):
                codec = data.draw(st.sampled_from(['ber', 'der']))
            # two different choice tables for the same selector values, one after the other
            first = data.draw(st.sampled_from(['ADB', 'ADB2']))
            self.do_compile(chosen, codec, ne, first)
            if not self.ok:
                return
            adb = 'ADB2' if first == 'ADB' else 'ADB'
        elif what == 'codec':
            codec = data.draw(st.sampled_from([c for c in CODECS if c != codec]))
        elif what == 'text':
            s0 = chosen[0]
            twins = TWINS.get(self.files[s0], ['T1'])
            self.write_file(s0, twins[data.draw(st.integers(0, len(twins) - 1))])
        elif what == 'order' and len(chosen) > 1:
            chosen = chosen[1:] + chosen[:1]
        self.do_compile(chosen, codec, ne, adb)

    @precondition(lambda self: self.ok and self.files)
    @rule(data=st.data(), codec=st.sampled_from(CODECS), ne=st.booleans(), adb=st.sampled_from([None, None, 'ADB', 'ADB2']))
    def compile(self, data, codec, ne, adb):
        slots = sorted(self.files)
        k = data.draw(st.integers(1, len(slots)))
        chosen = list(data.draw(st.permutations(slots)))[:k]
        self.do_compile(chosen, codec, ne, adb)

    def do_compile(self, chosen, codec, ne, adb):
        files = [self.path(s) for s in chosen]
        table = {'ADB': ADB, 'ADB2': ADB2}.get(adb)
        uses_adb = table is not None and any(self.files[s] == 'T3' for s in chosen)
        if table is not None and not uses_adb:
            table = None
            adb = None
        self.history.append(['compile', chosen, [self.files[s] for s in chosen], codec, ne, adb])
        self.last = (tuple(chosen), codec, ne, adb)
        want = outcome(asn1tools.compile_files, files, codec, any_defined_by_choices=table, numeric_enums=ne)
        got = cached_compile(self.dir, files, codec, ne, adb, self.cache)
        self.REC.ev()
        sig = (tuple(self.files[s] for s in chosen), codec)
        if sig in self.hits or self.damaged:
            self.interesting = True
        self.hits.add(sig)
        if got[0] == 'timeout':
            self.REC.notes['cached-compile-timeout'] += 1
            self.ok = False
            return
        if got[0] != 'ok':
            if want[0] == 'ok' and not self.damaged:
                self.report('cache-raises', 'cached compile failed (%s), uncached compile succeeds and the cache was '
                            'never damaged' % (got[:3],))
            elif want[0] == 'ok':
                self.REC.cls('error-after-damage(allowed):' + str(got[0]))
            return
        if want[0] != 'ok':
            self.report('cache-hides-error', 'cached compile returned a specification, uncached compile raises %s: %s'
                        % (want[1], want[2][:200]))
            return
        b1, b0 = got[1], behaviour(want[1])
        if b1 != b0:
            j = next(i for i in range(len(b0)) if b0[i] != b1[i])
            self.report('wrong-codec', 'cached specification behaves differently from uncached compile of the same '
                        'files/options: probe outcome %d cached %s vs uncached %s' % (j, b1[j], b0[j]))

    @precondition(lambda self: self.ok and os.path.isdir(self.cache))
    @rule(data=st.data(), how=st.sampled_from(['truncate', 'flip', 'zero']))
    def corrupt_cache(self, data, how):
        names = []
        for root, _, fs in os.walk(self.cache):
            for f in fs:
                names.append(os.path.join(root, f))
        names.sort()
        if not names:
            return
        p = names[data.draw(st.integers(0, len(names) - 1))]
        size = os.path.getsize(p)
        pos = data.draw(st.integers(0, max(0, size - 1)))
        try:
            with open(p, 'r+b') as f:
                if how == 'truncate':
                    f.truncate(pos)
                elif size:
                    f.seek(pos)
                    b = f.read(1)
                    f.seek(pos)
                    f.write(bytes([b[0] ^ 0x55]) if how == 'flip' and b else b'\x00')
        except OSError:
            return
        self.damaged = True
        self.history.append(['corrupt', os.path.relpath(p, self.cache), how, pos])

    @precondition(lambda self: self.ok and self.files)
    @rule(n=st.integers(1, 600), codec=st.sampled_from(CODECS))
    def crashed_writer(self, n, codec):
        slots = sorted(self.files)
        files = [self.path(s) for s in slots]
        script = os.path.join(self.dir, 'child.py')
        with open(script, 'w') as f:
            f.write(CHILD % {'repo': env.REPO})
        try:
            r = subprocess.run([sys.executable, script, str(n), codec, self.cache] + files,
                               capture_output=True, timeout=120)
        except subprocess.TimeoutExpired:
            self.REC.notes['child-timeout'] += 1
            return
        killed = (r.returncode == -9)
        self.history.append(['crashed-writer', n, codec, [self.files[s] for s in slots], killed])
        if killed:
            self.damaged = True
            self.REC.cls('writer-killed')
        else:
            self.REC.cls('writer-completed')

    def report(self, kind, msg):
        case = {'history': self.history, 'pool': POOL}
        self.REC.fail(Failure(kind, msg, case, []))
        self.ok = False

    def teardown(self):
        if self.ok and self.interesting:
            self.REC.nt(self.history)
        if self.ok and self.history and (len(self.REC.samples) < 2 or self.REC.evaluations % 25 == 0):
            self.REC.sample({'history': self.history})
        shutil.rmtree(self.dir, ignore_errors=True)


class C17(Check):
    id = 'C17'
    level = 'fault_enumeration'
    engine = 'hypothesis stateful + crash-point enumeration'
    rule = ('histories over one fresh cache directory: write_file(slot, text from a pool incl. a changed constraint, near '
            'twins that differ only in white-space that matters / letter case / one digit / digit order / the last line, an '
            'ANY DEFINED BY module and a module split mid-token over two files), compile_files(files, order, codec in 8, '
            'numeric_enums, any_defined_by_choices) with cache vs without, corrupt_cache(truncate/flip/zero at a drawn '
            'offset of a drawn cache file), crashed_writer(n): child populating the cache SIGKILLed at its n-th '
            'diskcache/sqlite3 call event; evaluation = one cached compile compared; non-trivial = history with a '
            'repeated (files, codec) compile or a compile after damage; distinct = hash(history)')
    assumptions = ['crash points are call events inside diskcache/sqlite3 of a populating child (SIGKILL), enumerated by '
                   'index; fsync/power-loss reordering below the file system is not modelled',
                   'an error from a cache that was damaged earlier in the history is allowed by the property']

    def shards(self, tier):
        return [{'i': i} for i in range(16)] + [{'i': 16 + j, 'directed': j} for j in range(4)]

    def directed(self, shard, seed, rec):
        """stratification floor: for every near-twin pair (a, b): compile a, rewrite the file as b, compile again with the
        same options (the second compile must not be served the first text's codec)"""
        pairs = sorted((a, b) for a, bs in TWINS.items() for b in bs)
        base = tempfile.mkdtemp(prefix='asn1v-c17d-', dir=os.environ.get('TMPDIR', '/tmp'))
        try:
            for k, (a, b) in enumerate(pairs):
                if k % 4 != shard['directed']:
                    continue
                codec = CODECS[(seed + k) % len(CODECS)]
                ne = bool((seed + k) % 2)
                case = {'history': [['write', 'f1', a], ['compile', ['f1'], [a], codec, ne, None],
                                    ['write', 'f1', b], ['compile', ['f1'], [b], codec, ne, None]], 'pool': POOL}
                rec.cases += 1
                rec.cls('directed-cases')
                self.replay(case, rec, count=True)
                rec.nt(case['history'])
                if k % 4 == shard['directed'] and a[:2] == b[:2] and a != 'T3':
                    # both texts define the same module: with two files the later one wins, so the order of the file
                    # list matters and the cache must not serve [a, b] for [b, a]
                    case = {'history': [['write', 'f1', a], ['write', 'f2', b],
                                        ['compile', ['f1', 'f2'], [a, b], codec, ne, None],
                                        ['compile', ['f2', 'f1'], [b, a], codec, ne, None],
                                        ['compile', ['f1', 'f2'], [a, b], codec, ne, None]], 'pool': POOL}
                    rec.cases += 1
                    rec.cls('directed-cases')
                    self.replay(case, rec, count=True)
                    rec.nt(case['history'])
            if shard['directed'] == 0:
                # a type name defined in two and in three modules, compiled twice (the second call is a cache hit)
                for files, texts in ((['f1', 'f2', 'f3'], ['T5', 'T6', 'T7']), (['f1', 'f2'], ['T5', 'T6']),
                                     (['f3', 'f1'], ['T7', 'T5'])):
                    codec = CODECS[(seed + len(files)) % 8]
                    hist = [['write', 'f1', 'T5'], ['write', 'f2', 'T6'], ['write', 'f3', 'T7']]
                    hist += [['compile', files, texts, codec, False, None]] * 2
                    case = {'history': hist, 'pool': POOL}
                    rec.cases += 1
                    rec.cls('directed-cases')
                    self.replay(case, rec, count=True)
                    rec.nt(case['history'])
            # the same ANY DEFINED BY module compiled with a choice table, then without one / with another one under
            # other codecs and options: nothing of an earlier call's table may survive in the cache
            for k in range(2):
                j = shard['directed'] * 2 + k
                c1, c2, c3 = CODECS[(seed + j) % 8], CODECS[(seed + j + 3) % 8], CODECS[(seed + j + 5) % 8]
                first = ['ADB', 'ADB2'][j % 2]
                case = {'history': [['write', 'f1', 'T3'], ['compile', ['f1'], ['T3'], c1, False, first],
                                    ['compile', ['f1'], ['T3'], c2, False, None],
                                    ['compile', ['f1'], ['T3'], c1, True, None],
                                    ['compile', ['f1'], ['T3'], c3, bool(j % 2), 'ADB' if first == 'ADB2' else 'ADB2'],
                                    ['compile', ['f1'], ['T3'], c1, False, None]], 'pool': POOL}
                rec.cases += 1
                rec.cls('directed-cases')
                self.replay(case, rec, count=True)
                rec.nt(case['history'])
        finally:
            shutil.rmtree(base, ignore_errors=True)

    def run_shard(self, shard, tier, seed, rec):
        if 'directed' in shard:
            if not shard.get('_shrink'):
                self.directed(shard, seed, rec)
            return
        scale = float(os.environ.get('ASN1V_SCALE', '1'))
        n = max(1, int((6 if tier == "quick" else 300) * scale))
        # one scratch directory per shard, removed whatever happens to the individual machines
        C17Machine.BASE = tempfile.mkdtemp(prefix='asn1v-c17s-', dir=os.environ.get('TMPDIR', '/tmp'))
        try:
            machine_run(C17Machine, seed, n, 12 if tier == 'quick' else 25, rec,
                        shrink=shard.get('_shrink', False), timeout=shard.get('_timeout'))
        finally:
            shutil.rmtree(C17Machine.BASE, ignore_errors=True)
            C17Machine.BASE = None

    def replay(self, case, rec, count=False):
        base = tempfile.mkdtemp(prefix='asn1v-c17r-', dir=os.environ.get('TMPDIR', '/tmp'))
        cache = os.path.join(base, 'cache')
        pool = case.get('pool', POOL)
        try:
            damaged = False
            for h in case['history']:
                if h[0] == 'write':
                    with open(os.path.join(base, h[1] + '.asn'), 'w') as f:
                        f.write(pool[h[2]])
                elif h[0] == 'compile':
                    files = [os.path.join(base, s + '.asn') for s in h[1]]
                    table = {'ADB': ADB, 'ADB2': ADB2}.get(h[5])
                    want = outcome(asn1tools.compile_files, files, h[3], any_defined_by_choices=table, numeric_enums=h[4])
                    got = cached_compile(base, files, h[3], h[4], h[5], cache)
                    if count:
                        rec.ev()
                    if got[0] != 'ok':
                        if want[0] == 'ok' and not damaged:
                            rec.fail(Failure('cache-raises', 'cached compile failed %s' % (got[:3],), case))
                            return
                        continue
                    if want[0] != 'ok':
                        rec.fail(Failure('cache-hides-error', 'cached compile ok, uncached raises %s' % want[1], case))
                        return
                    if got[1] != behaviour(want[1]):
                        rec.fail(Failure('wrong-codec', 'cached specification behaves differently at step %r' % (h,), case))
                        return
                elif h[0] == 'corrupt':
                    damaged = True
                    p = os.path.join(cache, h[1])
                    if os.path.exists(p):
                        with open(p, 'r+b') as f:
                            if h[2] == 'truncate':
                                f.truncate(h[3])
                            else:
                                f.seek(h[3])
                                b = f.read(1)
                                f.seek(h[3])
                                f.write(bytes([b[0] ^ 0x55]) if h[2] == 'flip' and b else b'\x00')
                elif h[0] == 'crashed-writer':
                    damaged = damaged or h[4]
                    script = os.path.join(base, 'child.py')
                    with open(script, 'w') as f:
                        f.write(CHILD % {'repo': env.REPO})
                    slots = sorted(s[:-4] for s in os.listdir(base) if s.endswith('.asn'))
                    files = [os.path.join(base, s + '.asn') for s in slots]
                    subprocess.run([sys.executable, script, str(h[1]), h[2], cache] + files, capture_output=True,
                                   timeout=120)
        finally:
            shutil.rmtree(base, ignore_errors=True)


CHECK = C17()
