"""C18 - a compiled specification is stateless across calls and threads."""
import copy
import os
import sys
import threading

from hypothesis import strategies as st
from hypothesis.stateful import RuleBasedStateMachine, rule, initialize, precondition

from .. import asn, common, gen, jsonio, values
from ..common import asn1tools
from ..runner import Check, Failure, exc_sig, machine_run, machine_tick, watchdog, CaseHang
from .c13 import outcome, show

CODECS = ['ber', 'der', 'per', 'uper', 'oer', 'jer', 'xer']
BAD_VALUES = [None, [], 'x', 3.5, {'zz': 1}, ('nope', 1), (b'\x00', 99), b'\xff', -10 ** 30, True]


def run_op(c, op):
    kind, name, payload = op
    if kind == 'enc':
        return show(outcome(c.encode, name, payload, check_types=True, check_constraints=True))
    if kind == 'enc-nocheck':
        return show(outcome(c.encode, name, payload, check_types=False))
    return show(outcome(c.decode, name, payload))


class C18Machine(RuleBasedStateMachine):
    REC = None

    def __init__(self):
        super().__init__()
        machine_tick(self)
        self.ok = False
        self.history = []

    @initialize(data=st.data())
    def setup(self, data):
        prof = gen.Profile(max_types=4, max_depth=3, max_modules=1)
        spec = data.draw(gen.specs(prof))
        self.codec = data.draw(st.sampled_from(CODECS))
        self.spec = spec
        self.text = spec.text()
        try:
            self.parsed = asn1tools.parse_string(self.text)
            self.shared = asn1tools.compile_dict(copy.deepcopy(self.parsed), self.codec)
        except Exception as e:
            self.REC.discarded['uncompilable:%s:%s' % exc_sig(e)] += 1
            return
        vg = values.VG(data.draw, spec, values.ValCfg(max_len=10, max_depth=3,
                                                     chars='xml' if self.codec == 'xer' else 'any'))
        self.pool = []
        tops = spec.top_types()
        tops = tops[:3] + [t for t in tops[3:] if t[1] in common.FLOOR_TYPES]
        feats = set()
        for (m, name, ty) in tops:
            feats |= common.type_features(spec, ty, m.name)
            for _ in range(2):
                v = vg.value(ty, m.name)
                self.pool.append(('enc', name, v))
                # (a copy: only the calls under test may touch the pooled argument objects)
                e = outcome(asn1tools.compile_dict(copy.deepcopy(self.parsed), self.codec).encode, name,
                            copy.deepcopy(v))
                if e[0] == 'ok':
                    b = bytes(e[1])
                    self.pool.append(('dec', name, b))
                    if len(b) > 0:
                        self.pool.append(('dec', name, b[:-1]))
                        i = data.draw(st.integers(0, len(b) - 1))
                        self.pool.append(('dec', name, b[:i] + bytes([b[i] ^ (1 << data.draw(st.integers(0, 7)))]) + b[i + 1:]))
            self.pool.append(('enc', name, data.draw(st.sampled_from(BAD_VALUES))))
            self.pool.append(('enc-nocheck', name, data.draw(st.sampled_from(BAD_VALUES))))
        # the containers of the shared-reference floor have the same member names and referenced types: a value of one
        # is also offered to the other (accepted or rejected - in either case the same as on a fresh compile), so
        # that state shared between their checkers or codecs is fed the same strings and numbers from both sides
        names = {t[1] for t in tops}
        for a_, b_ in (('Dv', 'Dw'), ('Dw', 'Dv')):
            if a_ in names and b_ in names:
                for op in list(self.pool):
                    if op[0] == 'enc' and op[1] == a_ and isinstance(op[2], dict):
                        self.pool.append(('enc', b_, copy.deepcopy(op[2])))
        if not self.pool:
            return
        self.recursive = 'recursive' in feats
        self.expected = {}
        self.ok = True
        self.REC.cases += 1
        self.REC.cls('codec:' + self.codec)

    def oracle(self, i):
        if i not in self.expected:
            fresh = asn1tools.compile_dict(copy.deepcopy(self.parsed), self.codec)
            k_, n_, p_ = self.pool[i]
            self.expected[i] = run_op(fresh, (k_, n_, copy.deepcopy(p_)))
        return self.expected[i]

    @precondition(lambda self: self.ok and len(self.history) < 50)
    @rule(k=st.integers(0, 10 ** 6))
    def op(self, k):
        i = k % len(self.pool)
        op = self.pool[i]
        self.history.append(i)
        before = jsonio.dumps(jsonio.enc(op[2]))
        try:
            with watchdog(20):
                want = self.oracle(i)
                got = run_op(self.shared, op)
        except CaseHang:
            self.REC.notes['op-hang(C08)'] += 1
            self.ok = False
            return
        self.REC.ev()
        after = jsonio.dumps(jsonio.enc(op[2]))
        if before != after:
            self.report('argument-modified', 'op %s on %s modified its argument: %s -> %s' % (
                op[0], op[1], before[:200], after[:200]))
            return
        if got != want:
            self.report('sequential-differs', 'op #%d %s(%s) after history %r gave %s, alone on a fresh compile it '
                        'gives %s' % (len(self.history), op[0], op[1], self.history[:-1], got[:300], want[:300]))

    @precondition(lambda self: self.ok and not getattr(self, 'stormed', False) and len(self.history) < 40)
    @rule(rounds=st.sampled_from([5, 20]))
    def storm(self, rounds):
        """state that failing calls leave behind may only show after many of them: every failing operation of the pool
        `rounds` times in a row, then every operation once, each compared with its outcome on a fresh compile"""
        self.stormed = True
        failing = [i for i in range(len(self.pool)) if self.oracle(i).startswith('exc:')]
        try:
            with watchdog(60):
                for _ in range(rounds):
                    for i in failing:
                        k_, n_, p_ = self.pool[i]
                        run_op(self.shared, (k_, n_, copy.deepcopy(p_)))
        except CaseHang:
            self.REC.notes['op-hang(C08)'] += 1
            self.ok = False
            return
        self.history.append(-rounds)
        for i in range(len(self.pool)):
            if not self.ok:
                return
            self.REC.ev()
            k_, n_, p_ = self.pool[i]
            got = run_op(self.shared, (k_, n_, copy.deepcopy(p_)))
            if got != self.oracle(i):
                self.report('sequential-differs', 'after %d rounds of the %d failing operations, %s(%s) gave %s, alone on a '
                            'fresh compile it gives %s' % (rounds, len(failing), k_, n_, got[:300], self.oracle(i)[:300]))

    @rule()
    def idle(self):
        pass

    def report(self, kind, msg):
        case = {'spec': jsonio.spec_enc(self.spec), 'text': self.spec.texts(), 'codec': self.codec,
                'pool': [[k, n, jsonio.enc(p)] for k, n, p in self.pool], 'history': list(self.history)}
        self.REC.fail(Failure(kind, msg, case, ['codec:' + self.codec]))
        self.ok = False

    def teardown(self):
        if not self.ok or len(self.history) < 2:
            return
        hist = [i for i in self.history if i >= 0]
        fails = [i for i in set(hist) if self.oracle(i).startswith('exc:')]
        if (fails and any(not self.oracle(i).startswith('exc:') for i in hist)) or self.recursive:
            self.REC.nt(self.text, self.codec, self.history)
        # threaded replay of the same history
        nthreads = 1 + (len(self.history) * 7) % 8
        interval = [5e-3, 5e-5, 1e-6][len(self.history) % 3]
        old = sys.getswitchinterval()
        sys.setswitchinterval(interval)
        try:
            for rep in range(3):
                results = {}
                barrier = threading.Barrier(nthreads)

                def worker(t):
                    barrier.wait()
                    for j in range(t, len(self.history), nthreads):
                        i = self.history[j]
                        if i >= 0:
                            results[j] = run_op(self.shared, self.pool[i])
                ths = [threading.Thread(target=worker, args=(t,)) for t in range(nthreads)]
                for t in ths:
                    t.start()
                for t in ths:
                    t.join(60)
                if any(t.is_alive() for t in ths):
                    self.REC.notes['thread-hang'] += 1
                    return
                for j, i in enumerate(self.history):
                    if i < 0:
                        continue
                    self.REC.ev()
                    if results.get(j) != self.oracle(i):
                        self.report('threaded-differs', 'with %d threads (switch interval %g) op #%d %s(%s) gave %s, '
                                    'alone it gives %s' % (nthreads, interval, j, self.pool[i][0], self.pool[i][1],
                                                           str(results.get(j))[:300], self.oracle(i)[:300]))
                        return
            self.REC.cls('threads-%d' % nthreads)
        finally:
            sys.setswitchinterval(old)
        if len(self.REC.samples) < 2 or self.REC.evaluations % 40 == 0:
            self.REC.sample({'module_text': self.text, 'codec': self.codec, 'history': self.history[:30],
                             'pool_size': len(self.pool), 'threads': nthreads})


class C18(Check):
    id = 'C18'
    engine = 'hypothesis stateful'
    rule = ('histories = up to 50 operations (encode of valid / ill-typed values with and without checks, decode of '
            'valid / truncated / bit-flipped bytes on up to 3 types) on ONE compiled specification; each result is '
            'compared with the same call on a freshly compiled specification, arguments must be unmodified; once per history '
            'every failing operation is repeated 5 or 20 times in a row and then every operation is compared again; the same '
            'history is then replayed on 1-8 threads (3 repetitions, switch interval 5ms/50us/1us); evaluation = one '
            'operation compared; non-trivial = history mixes failing and succeeding operations or uses a recursive '
            'type; distinct = hash(module, codec, history)')
    assumptions = ["the threaded part cannot own CPython's scheduler: best-effort exploration on top of the "
                   'deterministic sequential part']

    def shards(self, tier):
        return [{'i': i} for i in range(16)]

    def run_shard(self, shard, tier, seed, rec):
        scale = float(os.environ.get('ASN1V_SCALE', '1'))
        n = max(1, int((15 if tier == 'quick' else 400) * scale))
        machine_run(C18Machine, seed, n, 30 if tier == 'quick' else 50, rec,
                    shrink=shard.get('_shrink', False), timeout=shard.get('_timeout'))

    def replay(self, case, rec):
        spec = jsonio.spec_dec(case['spec'])
        codec = case['codec']
        parsed = asn1tools.parse_string(spec.text())
        shared = asn1tools.compile_dict(copy.deepcopy(parsed), codec)
        pool = [(k, n, jsonio.dec(p)) for k, n, p in case['pool']]
        for j, i in enumerate(case['history']):
            if i < 0:
                fresh = {}
                for q in range(len(pool)):
                    fresh[q] = run_op(asn1tools.compile_dict(copy.deepcopy(parsed), codec),
                                      (pool[q][0], pool[q][1], copy.deepcopy(pool[q][2])))
                for _ in range(-i):
                    for q in range(len(pool)):
                        if fresh[q].startswith('exc:'):
                            run_op(shared, (pool[q][0], pool[q][1], copy.deepcopy(pool[q][2])))
                for q in range(len(pool)):
                    got = run_op(shared, (pool[q][0], pool[q][1], copy.deepcopy(pool[q][2])))
                    if got != fresh[q]:
                        rec.fail(Failure('sequential-differs', 'after the storm op %d gave %s, alone %s'
                                         % (q, got[:200], fresh[q][:200]), case))
                        return
                continue
            want = run_op(asn1tools.compile_dict(copy.deepcopy(parsed), codec),
                          (pool[i][0], pool[i][1], copy.deepcopy(pool[i][2])))
            before = jsonio.dumps(jsonio.enc(pool[i][2]))
            got = run_op(shared, pool[i])
            if before != jsonio.dumps(jsonio.enc(pool[i][2])):
                rec.fail(Failure('argument-modified', 'op #%d modified its argument' % j, case))
                return
            if got != want:
                rec.fail(Failure('sequential-differs', 'op #%d gave %s, alone %s' % (j, got[:200], want[:200]), case))
                return


CHECK = C18()
