"""C19 - encodings do not depend on how the specification text is organised."""
import os

from hypothesis import strategies as st

from .. import findings, arrange, common, gen, jsonio, values
from ..common import asn1tools
from ..runner import Check, Failure, exc_sig, hyp_run
from .c13 import outcome, show

CODECS = ['ber', 'der', 'per', 'uper', 'oer', 'jer', 'xer', 'gser']


def behaviour(c, probes, codec):
    out = []
    for modname, name, v in probes:
        e = outcome(c.encode, name, v, check_types=True, check_constraints=True)
        if e[0] == 'exc':
            out.append('exc:' + e[1])       # error class (texts may name types)
            continue
        out.append(show(e))
        if codec != 'gser':
            d = outcome(c.decode, name, e[1])
            out.append(show(d) if d[0] == 'ok' else 'exc:' + d[1])
            d = outcome(c.decode, name, bytes(e[1])[:-1])
            out.append(show(d) if d[0] == 'ok' else 'exc:' + d[1])
    return out


@st.composite
def cases(draw, prof):
    spec = draw(gen.specs(prof))
    tops = spec.top_types()
    vg = values.VG(draw, spec, values.ValCfg(max_len=12, max_depth=3))
    probes = []
    for (m, name, ty) in tops[:3]:
        for _ in range(2):
            probes.append((name, vg.value(ty, m.name)))
    arrs = []
    for _ in range(draw(st.integers(1, 3))):
        log = []
        a = arrange.arrange(draw, spec, log)
        arrs.append((a, log))
    return spec, probes, arrs


class C19(Check):
    id = 'C19'
    rule = ('cases = generated module set x up to 3 re-arrangements (1-4 steps of: permute assignments, permute '
            'modules, move a definition into a new module + IMPORTS, inline a type reference at a member, extract '
            'an inline member type into a new named type) x probe values x 8 codecs; evaluation = one '
            '(arrangement, codec) behaviour comparison; non-trivial = arrangement contains split/inline/extract; '
            'distinct = hash(original text, arranged text, codec)')
    assumptions = ['inline/extract only where tag default and extensibility default of both sites agree and '
                   'automatic tagging of the container is unaffected (otherwise the meaning changes)',
                   'behaviour = encode bytes (or error class), decode value, decode of truncated bytes on probe values']

    def shards(self, tier):
        return [{'i': i, 'codecs': CODECS, 'ne': i % 2 == 1} for i in range(16)]

    def run_shard(self, shard, tier, seed, rec):
        scale = float(os.environ.get('ASN1V_SCALE', '1'))
        n = max(1, int((12 if tier == "quick" else 600) * scale))
        prof = gen.Profile(max_types=4, max_depth=3, ext_implied=True, components_of_rate=25, components_of_tagged=True, alias_chain_rate=60,
                           same_defaults_rate=50, dup_names_rate=30)

        ne = bool(shard.get('ne'))

        def body(case, rec):
            spec, probes, arrs = case
            text0 = spec.text()
            ref = {}
            if ne:
                # every other shard compiles with numeric_enums=True (probe values converted accordingly)
                tm = {n_: (m_.name, t_) for m_, n_, t_ in spec.top_types()}
                probes = [(n_, values.to_numeric_enums(spec, tm[n_][1], tm[n_][0], v)) for n_, v in probes]
                rec.cls('numeric-enums-cases')
            for codec in CODECS:
                c0 = outcome(asn1tools.compile_string, text0, codec, numeric_enums=ne)
                ref[codec] = c0
            for a, log in arrs:
                if not log:
                    continue
                text1 = a.text()
                if findings.valueref_at_foreign_ref(a):
                    # known finding valueref-at-foreign-ref: excluded by construction, counted
                    rec.cls('excluded-by-known-finding:valueref-at-foreign-ref')
                    continue
                if findings.components_of_foreign_refs(a):
                    # known finding components-of-foreign-refs: excluded by construction, counted
                    rec.cls('excluded-by-known-finding:components-of-foreign-refs')
                    continue
                for codec in CODECS:
                    rec.ev()
                    c0 = ref[codec]
                    c1 = outcome(asn1tools.compile_string, text1, codec, numeric_enums=ne)
                    if c0[0] != 'ok' and c1[0] != 'ok':
                        rec.discarded['uncompilable-both'] += 1
                        continue
                    case_json = {'spec': jsonio.spec_enc(spec), 'text': spec.texts(),
                                 'arranged': jsonio.spec_enc(a), 'arranged_text': a.texts(), 'steps': log,
                                 'codec': codec, 'numeric_enums': ne,
                                 'probes': [[n_, jsonio.enc(v)] for n_, v in probes]}
                    if c0[0] != c1[0]:
                        rec.fail(Failure('compile-differs', 'codec %s: original compile %s, arranged (%s) compile %s'
                                         % (codec, c0[:3] if c0[0] != 'ok' else 'ok', log,
                                            c1[:3] if c1[0] != 'ok' else 'ok'), case_json, log))
                        continue
                    pr = [(None, n_, v) for n_, v in probes]
                    b0 = behaviour(c0[1], pr, codec)
                    b1 = behaviour(c1[1], pr, codec)
                    if b0 != b1:
                        j = next(k for k in range(len(b0)) if b0[k] != b1[k])
                        rec.fail(Failure('behaviour-differs', 'codec %s after %s: outcome %d original %s vs arranged %s'
                                         % (codec, log, j, b0[j][:200], b1[j][:200]), case_json, log))
                        continue
                    for s in log:
                        rec.cls('step:' + s)
                    if set(log) & {'split', 'inline', 'extract', 'merge'}:
                        rec.nt(text0, text1, codec)
                if len(rec.samples) < 2 or rec.evaluations % 50 == 0:
                    rec.sample({'original': text0, 'arranged': text1, 'steps': log})
        hyp_run(cases(prof), body, seed, n, rec, shrink=shard.get('_shrink', False),
                timeout=shard.get('_timeout'))

    def replay(self, case, rec):
        spec = jsonio.spec_dec(case['spec'])
        a = jsonio.spec_dec(case['arranged'])
        codec = case['codec']
        probes = [(None, n, jsonio.dec(v)) for n, v in case['probes']]
        ne = bool(case.get('numeric_enums'))
        c0 = outcome(asn1tools.compile_string, spec.text(), codec, numeric_enums=ne)
        c1 = outcome(asn1tools.compile_string, a.text(), codec, numeric_enums=ne)
        if c0[0] != c1[0]:
            rec.fail(Failure('compile-differs', 'compile outcome differs', case))
            return
        if c0[0] != 'ok':
            return
        b0 = behaviour(c0[1], probes, codec)
        b1 = behaviour(c1[1], probes, codec)
        if b0 != b1:
            j = next(k for k in range(len(b0)) if b0[k] != b1[k])
            rec.fail(Failure('behaviour-differs', 'outcome %d original %s vs arranged %s' % (j, b0[j][:200], b1[j][:200]),
                             case))


CHECK = C19()
