"""C20 - GSER output is well-formed value notation that determines the value."""
from .. import aeq, common, jsonio, values
from ..common import SpecValueCheck
from ..model import gser as gmodel
from .c02 import nontrivial_value

INDENTS = [None, 0, 2, 4]


class C20(SpecValueCheck):
    id = 'C20'
    codecs = ['gser']
    quick_n = 60
    thorough_n = 1500
    rule = ('cases = generated modules x types x values x indent in {None,0,2,4} x numeric_enums, codec gser; '
            'oracle: the independent RFC 3641 / X.680 value-notation reader (vlib/model/gser.py) consumes the whole '
            'text after the literal "name Type ::= " wrapper and returns the same abstract value; a second drawn '
            'value of the same type that differs abstractly must give different text; evaluation = one text read or '
            'one pair compared; non-trivial = value holds a string with a quote/delimiter/space edge, an empty '
            'string/bit string/list, a REAL outside [1e-4,1e16) or non-finite; distinct = hash(module,type,indent,value)')
    assumptions = ['vlib/model/gser.py is the independent reader; optional white-space is accepted wherever X.680 value '
                   'notation allows it', 'EncodeError for NaN is a clean rejection']

    max_values = 4

    def valcfg(self, tier, shard):
        return values.ValCfg(numeric_enums=shard['ne'], nan=True, neg_zero=False, max_len=20)

    def oracle(self, x):
        cfg = aeq.EqCfg(numeric_enums=x.ne, exact_real=False)
        nt = nontrivial_value(x.v)
        want = gmodel.normalise_times(x.spec, x.ty, x.modname, x.v)
        texts = {}
        for indent in INDENTS:
            x.rec.ev()
            kw = {} if indent is None else {'indent': indent}
            try:
                e = x.c.encode(x.name, x.v, check_types=True, check_constraints=True, **kw)
            except NotImplementedError:
                x.rec.cls('declared-unsupported')
                return
            except (common.A_EncodeError, common.A_ConstraintsError) as ex:
                x.rec.cls('rejected-by-library:' + type(ex).__name__)
                return
            except Exception as ex:
                x.fail('encode-crash', 'encode(indent=%r) raised %s: %s on %s' % (
                    indent, type(ex).__name__, ex, common.short(x.v)), ex, indent=indent)
                return
            try:
                text = bytes(e).decode('utf-8')
                got = gmodel.read(x.spec, x.ty, x.modname, x.name, text, x.ne)
            except (gmodel.GserError, UnicodeDecodeError) as ex:
                x.fail('not-value-notation', 'indent=%r: independent reader rejects the text: %s; text %r' % (
                    indent, ex, bytes(e)[:300]), indent=indent)
                return
            diff = aeq.aeq(x.spec, x.ty, x.modname, want, got, cfg)
            if diff:
                x.fail('reads-back-differently', 'indent=%r: %s; text %r' % (indent, diff, bytes(e)[:300]),
                       indent=indent)
                return
            texts[indent] = bytes(e)
            if nt:
                x.rec.nt(x.name, x.ne, x.spec.text(), indent, jsonio.enc(x.v))
        x.extra['texts'] = texts
        self.sample(x, text=texts[None].decode('utf-8', 'replace')[:200])

    def run_shard(self, shard, tier, seed, rec):
        self._last = {}
        return super().run_shard(shard, tier, seed, rec)


# injectivity is checked inside the same oracle by remembering the previous value of the same type
_orig_oracle = C20.oracle


def oracle_with_injectivity(self, x):
    _orig_oracle(self, x)
    texts = x.extra.get('texts')
    if not texts:
        return
    key = (id(x.c), x.name)
    if not hasattr(self, '_last'):
        self._last = {}
    prev = self._last.get(key)
    self._last = {key: (x.v, texts[None])}
    if prev is None:
        return
    v1, t1 = prev
    x.rec.ev()
    cfg = aeq.EqCfg(numeric_enums=x.ne)
    a = gmodel.normalise_times(x.spec, x.ty, x.modname, v1)
    b = gmodel.normalise_times(x.spec, x.ty, x.modname, x.v)
    differ = aeq.aeq(x.spec, x.ty, x.modname, a, b, cfg) is not None
    if differ and t1 == texts[None]:
        x.fail('not-injective', 'two different values produce the same text %r: %s vs %s' % (
            t1[:200], common.short(v1, 150), common.short(x.v, 150)), other=jsonio.enc(v1))
    elif differ:
        x.rec.cls('injective-pair')


C20.oracle = oracle_with_injectivity
CHECK = C20()
