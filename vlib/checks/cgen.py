"""Shared implementation of C09 (UPER) and C10 (OER): generated C code vs the Python codec."""
import json
import os
import shutil
import subprocess
import sys
import tempfile

from hypothesis import strategies as st

from .. import aeq, asn, common, env, evolve, gen, jsonio, values
from ..common import asn1tools
from ..runner import Check, Failure, exc_sig, hyp_run
from .c13 import outcome

GCC = ['gcc', '-std=c99', '-pedantic-errors', '-Wall', '-Wextra', '-fPIC', '-shared']
OUTSIDE = ['REAL', 'OBJECT IDENTIFIER', 'IA5String', 'UTF8String', 'INTEGER-unbounded', 'SET', 'UTCTime',
           'BIT STRING-variable', 'recursion', 'additions', 'BIT STRING-default']


def c_profile(codec, outside):
    p = gen.Profile()
    p.kinds = ['BOOLEAN', 'INTEGER', 'INTEGER', 'NULL', 'OCTET STRING', 'BIT STRING', 'ENUMERATED']
    if codec == 'oer':
        p.kinds.append('REAL')
        p.real_wc = True
        p.real_wc_always = True
    p.constructed = ['SEQUENCE', 'SEQUENCE', 'CHOICE', 'SEQUENCE OF']
    p.tagdefaults = ['AUTOMATIC']
    p.max_modules = 2
    p.max_types = 4
    p.max_depth = 3
    p.require_bounded = True
    p.int_bits = 64
    p.ext_constraints = False
    p.semi_constraints = False
    p.alpha = False
    p.recursion = False
    p.enum_ext = False
    p.ext_implied = False
    p.root2 = False
    p.groups = False
    p.ext = True
    p.bit_fixed_max = 64
    p.default_kinds = ['BOOLEAN', 'INTEGER', 'ENUMERATED', 'OCTET STRING']
    p.max_size_bound = 12
    # length fields of one or two octets / 8 or 9 bits in the generated C (kept <= 300: the arrays live in structs
    # that the generated fuzz harness puts on the stack)
    p.big_size_rate = 6
    p.big_size_shapes = [(0, 127), (0, 128), (0, 255), (0, 256), (1, 256), (0, 257), (127, 129), (200, 300),
                         (128, 128), (256, 256), (255, 257)]
    p.unique_member_names_ci = True
    p.empty_containers = False
    p.ref_constraints = False
    p.elem_names = False
    p.tags = False
    p.top_tags = False
    p.wide_additions = (codec == 'oer')
    p.via_ref_floor = True
    if outside == 'REAL' and codec == 'uper':
        p.kinds.append('REAL')
    elif outside in ('OBJECT IDENTIFIER', 'IA5String', 'UTF8String', 'UTCTime'):
        p.kinds.append(outside)
    elif outside == 'INTEGER-unbounded':
        p.require_bounded = False
        p.semi_constraints = True
    elif outside == 'SET':
        p.constructed.append('SET')
    elif outside == 'BIT STRING-variable':
        p.bit_fixed_max = None
    elif outside == 'recursion':
        p.recursion = True
    elif outside == 'BIT STRING-default':
        p.default_kinds = p.default_kinds + ['BIT STRING'] * 3
    return p


def strip_additions(spec):
    """UPER C subset: extension markers must be empty"""
    for m in spec.modules:
        for _, t in m.types:
            for n in t.walk():
                if n.kind in ('SEQUENCE', 'SET', 'CHOICE') and n.ext:
                    n.ext = []
    spec.link()


def has_unknown_alternative(v):
    if isinstance(v, tuple) and len(v) == 2:
        if v[0] is None and v[1] is None:
            return True
        return has_unknown_alternative(v[1]) if isinstance(v[0], str) else False
    if isinstance(v, dict):
        return any(has_unknown_alternative(x) for x in v.values())
    if isinstance(v, list):
        return any(has_unknown_alternative(x) for x in v)
    return False


def uses_additions(spec, ty, modname, v):
    r = asn.resolve(spec, ty, modname)
    b = r.base
    if b.kind in ('SEQUENCE', 'SET') and isinstance(v, dict):
        adds = set()
        for a in (b.ext or []):
            for m in (a.members if isinstance(a, asn.Group) else [a]):
                adds.add(m.name)
        if any(k in adds for k in v):
            return True
        return any(uses_additions(spec, m.ty, r.mod, v[m.name]) for m in b.all_members() if m.name in v)
    if b.kind == 'CHOICE' and isinstance(v, tuple):
        for m in b.all_members():
            if m.name == v[0]:
                return uses_additions(spec, m.ty, r.mod, v[1])
        return False
    if b.kind in ('SEQUENCE OF', 'SET OF') and isinstance(v, list):
        return any(uses_additions(spec, b.elem, r.mod, x) for x in v)
    return False


def strip_choice_additions(spec):
    n_ = 0
    for m in spec.modules:
        for _, t in m.types:
            for n in t.walk():
                if n.kind == 'CHOICE' and n.ext:
                    n.ext = []
                    n_ += 1
    spec.link()
    return n_


def simplify_additions(spec):
    """known finding oer-c-addition-length-static: give every SEQUENCE addition of constructed type a
    primitive type instead (the search then goes on behind that finding); returns how many were replaced"""
    n_ = 0
    for m in spec.modules:
        for _, t in m.types:
            for n in t.walk():
                if n.kind == 'SEQUENCE' and n.ext:
                    for a in n.ext:
                        for mem in (a.members if isinstance(a, asn.Group) else [a]):
                            if asn.base_kind(spec, mem.ty, m.name) in ('SEQUENCE', 'CHOICE', 'SEQUENCE OF'):
                                mem.ty = asn.Ty('INTEGER', rng=asn.Rng(0, 65535))
                                n_ += 1
    spec.link()
    return n_


@st.composite
def cases(draw, codec):
    outside = None
    if draw(st.integers(0, 99)) < 15:
        outside = draw(st.sampled_from(OUTSIDE))
    prof = c_profile(codec, outside)
    spec = draw(gen.specs(prof))
    if codec == 'uper':
        if outside != 'additions':
            strip_additions(spec)
    elif draw(st.integers(0, 99)) < 90:
        # known finding c-choice-additions-dropped: excluded by construction in 9 of 10 modules so that the
        # search goes on behind it
        strip_choice_additions(spec)
    if codec == 'oer' and draw(st.integers(0, 99)) < 85:
        simplify_additions(spec)
    vg = values.VG(draw, spec, values.ValCfg(max_len=12, max_depth=3, out_of_root=False, dirty_bits=False,
                                             partial_additions=True))
    items = []
    for m in spec.modules:
        for name, ty in m.types:
            try:
                vals = [vg.value(ty, m.name) for _ in range(draw(st.integers(1, 3)))]
            except Exception:
                vals = []
            items.append((m.name, name, vals))
    spec2 = None
    log = []
    if codec == 'oer' and outside is None and draw(st.booleans()):
        spec2, log = evolve.evolve(draw, spec, c_profile(codec, None))
    v2items = []
    if spec2 is not None and log:
        vg2 = values.VG(draw, spec2, values.ValCfg(max_len=12, max_depth=3, out_of_root=False, dirty_bits=False))
        for m in spec2.modules:
            for name, ty in m.types:
                if name in dict(spec.by_name[m.name].types):
                    v2items.append((m.name, name, [vg2.value(ty, m.name) for _ in range(2)]))
    return spec, items, outside, spec2, log, v2items


def directed_modules(codec):
    """Stratification floor built by construction: the boundary classes of the documented C subset that ten random
    modules per shard reach too rarely - lengths on both sides of the one/two-octet (7/8/9-bit) length forms, integer
    ranges on both sides of every C type width, ENUMERATED numberings next to 0..n-1, BIT STRING sizes around the
    byte/word widths.  -> [(spec, items)]"""
    from ..asn import Ty, Member, Module, Spec, Rng
    out = []
    m = Module('M', 'AUTOMATIC')
    items = []

    def lens(lo, hi):
        return sorted(set(x for x in (lo, lo + 1, 1, 2, 126, 127, 128, 129, 254, 255, 256, 257, hi - 1, hi)
                          if lo <= x <= hi))
    for lo, hi in [(0, 127), (0, 128), (0, 255), (0, 256), (1, 300), (127, 129), (200, 200), (128, 128), (1, 256)]:
        name = 'O%dx%d' % (lo, hi)
        m.types.append((name, Ty('OCTET STRING', size=Rng(lo, hi))))
        items.append(('M', name, [bytes((i * 7 + n) % 256 for i in range(n)) for n in lens(lo, hi)]))
    out.append((Spec([m]), items))
    m = Module('M', 'AUTOMATIC')
    items = []
    for lo, hi in [(0, 127), (0, 128), (0, 255), (0, 256), (1, 300), (2, 2)]:
        name = 'L%dx%d' % (lo, hi)
        m.types.append((name, Ty('SEQUENCE OF', elem=Ty('INTEGER', rng=Rng(0, 255)), size=Rng(lo, hi))))
        items.append(('M', name, [[(i * 3) % 256 for i in range(n)] for n in lens(lo, hi)]))
    out.append((Spec([m]), items))
    m = Module('M', 'AUTOMATIC')
    items = []
    ranges = [(0, 255), (0, 256), (1, 256), (-128, 127), (-129, 127), (-128, 128), (0, 65535), (0, 65536),
              (-32768, 32767), (-32769, 32767), (0, 2 ** 32 - 1), (0, 2 ** 32), (-2 ** 31, 2 ** 31 - 1),
              (-2 ** 31 - 1, 2 ** 31 - 1), (0, 2 ** 64 - 1), (-2 ** 63, 2 ** 63 - 1), (5, 5), (0, 1), (-1, 0),
              (1000, 1255), (2 ** 63, 2 ** 64 - 1), (-2 ** 63, -2 ** 63 + 255)]
    for i, (lo, hi) in enumerate(ranges):
        name = 'I%d' % i
        m.types.append((name, Ty('INTEGER', rng=Rng(lo, hi))))
        items.append(('M', name, sorted(set(x for x in (lo, lo + 1, hi - 1, hi, (lo + hi) // 2, 0, -1, 127, 128, 255,
                                                        256, 65535, 65536) if lo <= x <= hi))))
    out.append((Spec([m]), items))
    m = Module('M', 'AUTOMATIC')
    items = []
    enums = [[('a', 0), ('b', 1), ('c', 2)], [('low', -1), ('mid', 1), ('high', 2)], [('a', 5), ('b', 300)],
             [('a', -129), ('b', 127)], [('n', -2), ('z', 0), ('p', 1), ('q', 3)], [('a', 1), ('b', 2), ('c', 3)],
             [('c', 2), ('a', 0), ('b', 1)], [('only', 0)], [('a', 0), ('b', 2)], [('x', 70000), ('y', -70000)]]
    for i, e in enumerate(enums):
        name = 'E%d' % i
        m.types.append((name, Ty('ENUMERATED', enum_root=[(n, v, True) for n, v in e])))
        items.append(('M', name, [n for n, _ in e]))
    out.append((Spec([m]), items))
    m = Module('M', 'AUTOMATIC')
    items = []
    for n in (1, 7, 8, 9, 15, 16, 17, 31, 32, 33, 63, 64):
        name = 'B%d' % n
        m.types.append((name, Ty('BIT STRING', size=Rng(n, n))))
        nb = (n + 7) // 8
        mask = (0xff << (8 * nb - n)) & 0xff
        vals = [(bytes([0xff] * (nb - 1) + [mask]), n), (bytes(nb), n),
                (bytes([0xaa] * (nb - 1) + [0xaa & mask]), n), (bytes([0x80] + [0] * (nb - 1)), n),
                (bytes([0] * (nb - 1) + [(1 << (8 * nb - n)) & 0xff]), n)]
        items.append(('M', name, vals))
    m.types.append(('I1', Ty('INTEGER', rng=Rng(0, 256))))
    m.types.append(('I9', Ty('INTEGER', rng=Rng(-32769, 32767))))
    m.types.append(('I8', Ty('INTEGER', rng=Rng(-32768, 32767))))
    m.types.append(('E1', Ty('ENUMERATED', enum_root=[('low', -1, True), ('mid', 1, True), ('high', 2, True)])))
    m.types.append(('E4', Ty('ENUMERATED', enum_root=[('n', -2, True), ('z', 0, True), ('p', 1, True), ('q', 3, True)])))
    mem = [Member('i', Ty('REF', ref='I1')), Member('e', Ty('REF', ref='E1'), optional=True),
           Member('b', Ty('REF', ref='B9'), optional=True), Member('k', Ty('REF', ref='I9'))]
    m.types.append(('S', Ty('SEQUENCE', root=mem)))
    items.append(('M', 'S', [{'i': 256, 'k': -32769}, {'i': 0, 'e': 'low', 'b': (b'\xff\x80', 9), 'k': 32767},
                             {'i': 1, 'e': 'high', 'k': 0}]))
    m.types.append(('C', Ty('CHOICE', root=[Member('x', Ty('REF', ref='E4')), Member('y', Ty('REF', ref='I8')),
                                            Member('z', Ty('NULL'))])))
    items.append(('M', 'C', [('x', 'n'), ('x', 'q'), ('y', -32768), ('z', None)]))
    # the same member name with a DEFAULT in an inline nested SEQUENCE and in the SEQUENCE around it; presence
    # patterns that differ between consecutive elements of a list of inline SEQUENCEs
    inner = Ty('SEQUENCE', root=[Member('x', Ty('INTEGER', rng=Rng(0, 15)), has_default=True, default=2, default_txt='2'),
                                 Member('y', Ty('BOOLEAN'))])
    m.types.append(('S2', Ty('SEQUENCE', root=[Member('n', inner),
                                               Member('x', Ty('INTEGER', rng=Rng(0, 7)), has_default=True, default=3,
                                                      default_txt='3'),
                                               Member('z', Ty('BOOLEAN'))])))
    items.append(('M', 'S2', [{'n': {'x': 2, 'y': True}, 'x': 5, 'z': False}, {'n': {'x': 9, 'y': False}, 'x': 3, 'z': True},
                              {'n': {'x': 9, 'y': True}, 'x': 5, 'z': True}, {'n': {'y': True}, 'z': False}]))
    # CHOICE alternatives with hand-written tags of every class and of one, two and three octets (OER writes them)
    from ..asn import Tag
    alts = []
    for i, (cls, num) in enumerate([('CONTEXT', 0), ('CONTEXT', 62), ('CONTEXT', 63), ('CONTEXT', 200),
                                    ('APPLICATION', 5), ('APPLICATION', 63), ('APPLICATION', 100),
                                    ('APPLICATION', 16384), ('PRIVATE', 62), ('PRIVATE', 127), ('PRIVATE', 128)]):
        alts.append(Member('t%d' % i, Ty('INTEGER', rng=Rng(0, 255), tag=Tag(cls, num, None))))
    m.types.append(('CT', Ty('CHOICE', root=alts)))
    items.append(('M', 'CT', [('t%d' % i, (i * 37) % 256) for i in range(len(alts))]))
    m.types.append(('SO', Ty('SEQUENCE', root=[
        Member('o', Ty('OCTET STRING', size=Rng(0, 5)), has_default=True, default=b'\x01\x02', default_txt="'0102'H"),
        Member('z', Ty('BOOLEAN'))])))
    items.append(('M', 'SO', [{'o': b'\x01\x02', 'z': True}, {'o': b'\x01\x02\x03', 'z': False},
                              {'o': b'\x01', 'z': True}, {'o': b'', 'z': False}, {'z': True},
                              {'o': b'\x09\x02', 'z': True}]))
    el = Ty('SEQUENCE', root=[Member('a', Ty('INTEGER', rng=Rng(0, 255)), optional=True),
                              Member('b', Ty('BOOLEAN'), has_default=True, default=True, default_txt='TRUE'),
                              Member('c', Ty('INTEGER', rng=Rng(0, 7)))])
    m.types.append(('LS', Ty('SEQUENCE OF', elem=el, size=Rng(0, 4))))
    items.append(('M', 'LS', [[{'a': 1, 'b': False, 'c': 1}, {'c': 2}, {'a': 200, 'c': 3}, {'b': False, 'c': 4}],
                              [{'c': 7}, {'a': 0, 'b': False, 'c': 0}], []]))
    out.append((Spec([m]), items))
    return out


class CGenCheck(Check):
    codec = 'uper'

    def shards(self, tier):
        return [{'i': i} for i in range(16)] + [{'i': 16 + j, 'directed': j} for j in range(5)]

    def scratch(self):
        return tempfile.mkdtemp(prefix='asn1v-c-', dir=os.environ.get('TMPDIR', '/tmp'))

    def run_child(self, job, workdir):
        jf = os.path.join(workdir, 'job.json')
        with open(jf, 'w') as f:
            json.dump(job, f)
        def limit_cpu():
            import resource
            resource.setrlimit(resource.RLIMIT_CPU, (120, 125))
        try:
            # the budget is CPU time of the child (a loop in the generated code burns it); the wall clock is only a
            # backstop and its expiry is inconclusive, never a verdict
            p = subprocess.run([sys.executable, os.path.join(env.VERIF_DIR, 'vlib', 'cdriver.py'), jf],
                               capture_output=True, timeout=1500, env=dict(os.environ, PYTHONHASHSEED='0'),
                               preexec_fn=limit_cpu)
        except subprocess.TimeoutExpired:
            return ('inconclusive', None)
        if p.returncode in (-24, -9):
            return ('timeout', 'the driver used more than 120 s of CPU time')
        if p.returncode != 0:
            return ('crash', 'exit status %d: %s' % (p.returncode, p.stderr.decode('utf-8', 'replace')[-400:]))
        for line in p.stdout.decode().splitlines():
            if line.startswith('RESULT '):
                return ('ok', json.loads(line[7:]))
        return ('crash', 'no result: ' + p.stdout.decode()[-200:])

    def pipeline(self, rec, spec, items, outside, spec2=None, log=None, v2items=None, fuzz_runs=0, foreign_pre=None):
        codec = self.codec
        text = spec.text()
        base_case = {'spec': jsonio.spec_enc(spec), 'text': spec.texts(), 'codec': codec, 'outside': outside}
        feats = ['codec:' + codec] + (['outside:' + outside] if outside else [])
        c = outcome(asn1tools.compile_string, text, codec)
        if c[0] != 'ok':
            rec.discarded['uncompilable:' + c[1]] += 1
            return
        rec.ev()
        try:
            h, src, fz, mk = asn1tools.source.c.generate(c[1], codec, 'ns', 'gen.h', 'gen.c', 'fuzz.c')
        except asn1tools.errors.Error as ex:
            rec.cls('rejected' + (':outside-subset' if outside else ':INSIDE-subset(over-rejection)'))
            if not outside:
                rec.notes['over-rejection:' + str(ex).split(': ')[-1][:60]] += 1
            return
        except Exception as ex:
            rec.fail(Failure('generator-crash', 'c.generate raised %s: %s (neither accepted nor cleanly rejected)'
                             % (type(ex).__name__, str(ex)[:200]), base_case, feats, exc_sig(ex)))
            return
        rec.cls('accepted' + (':with-' + outside if outside else ''))
        work = self.scratch()
        try:
            open(os.path.join(work, 'gen.h'), 'w').write(h)
            open(os.path.join(work, 'gen.c'), 'w').write(src)
            open(os.path.join(work, 'fuzz.c'), 'w').write(fz)
            so = os.path.join(work, 'gen.so')
            p = subprocess.run(GCC + ['-o', so, os.path.join(work, 'gen.c')], capture_output=True)
            if p.returncode != 0:
                rec.fail(Failure('does-not-compile', 'gcc -std=c99 -pedantic-errors rejects the generated code: %s'
                                 % p.stderr.decode('utf-8', 'replace')[:400], base_case, feats))
                return
            if p.stderr:
                rec.notes['gcc-warnings'] += 1
            job_items = []
            for modname, name, vals in items:
                ty = dict(spec.by_name[modname].types)[name]
                jv = []
                for v in vals:
                    e = outcome(c[1].encode, name, v, check_types=True, check_constraints=True)
                    if e[0] != 'ok':
                        rec.cls('python-rejects-value')
                        continue
                    jv.append({'value': jsonio.enc(v), 'encoded': bytes(e[1]).hex()})
                foreign = list((foreign_pre or {}).get((modname, name), []))
                if spec2 is not None and v2items:
                    c2 = outcome(asn1tools.compile_string, spec2.text(), codec)
                    if c2[0] == 'ok':
                        for m2, n2, v2s in v2items:
                            if (m2, n2) == (modname, name):
                                for v2 in v2s:
                                    e2 = outcome(c2[1].encode, n2, v2, check_types=True, check_constraints=True)
                                    if e2[0] == 'ok':
                                        foreign.append({'bytes': bytes(e2[1]).hex(), 'value': jsonio.enc(v2)})
                if jv or foreign:
                    job_items.append({'module': modname, 'type': name, 'values': jv, 'foreign': foreign})
            if not job_items:
                return
            job = {'verif': env.VERIF_DIR, 'spec': jsonio.spec_enc(spec), 'codec': codec, 'ns': 'ns',
                   'header': os.path.join(work, 'gen.h'), 'so': so, 'items': job_items}
            status, res = self.run_child(job, work)
            if status == 'inconclusive':
                rec.notes['driver-wall-clock-backstop(inconclusive)'] += 1
                return
            if status != 'ok':
                rec.fail(Failure('c-' + status, 'driving the generated code failed: %s' % (res,),
                                 dict(base_case, items=job_items), feats))
                return
            self.judge(rec, spec, spec2, base_case, feats, job_items, res, log)
            if fuzz_runs:
                self.fuzz(rec, work, base_case, feats, job_items, fuzz_runs)
        finally:
            if os.environ.get('ASN1V_KEEP'):
                sys.stderr.write('kept %s\n' % work)
            else:
                shutil.rmtree(work, ignore_errors=True)

    def judge(self, rec, spec, spec2, base_case, feats, job_items, res, log):
        for item, r in zip(job_items, res):
            modname, name = item['module'], item['type']
            ty = dict(spec.by_name[modname].types)[name]

            def F(kind, msg, vj=None):
                case = dict(base_case, module=modname, type=name, value=(vj or {}).get('value'),
                            encoded=(vj or {}).get('encoded'))
                if (vj or {}).get('foreign'):
                    case['foreign'] = vj['foreign']
                    case['log'] = vj.get('log')
                rec.fail(Failure(kind, '%s.%s: %s' % (modname, name, msg), case,
                                 feats + sorted(common.type_features(spec, ty, modname))))
            if 'error' in r:
                F('mis-translation', r['error'])
                continue
            if r.get('named_bits_checked'):
                rec.ev()
                rec.cls('named-bit-constants-checked')
            if r.get('named_bit_errors'):
                F('named-bit-constant', '; '.join(r['named_bit_errors'][:3]))
                continue
            for vj, one in zip(item['values'], r['results']):
                rec.ev()
                want = vj['encoded']
                if 'shape_error' in one:
                    F('mis-translation', 'the struct cannot hold the value: ' + one['shape_error'], vj)
                    continue
                if 'map_error' in one:
                    rec.notes['driver-map-error:' + one['map_error'][:40] + ' .. ' + one['map_error'][-70:]] += 1
                    continue
                if self.codec == 'uper' and one['c_encode_ret'] < 0 and uses_additions(spec, ty, modname,
                                                                                      jsonio.dec(vj['value'])):
                    # documented limitation: the UPER C code refuses extension additions at run time
                    rec.cls('uper-addition-refused-at-run-time')
                    continue
                if one['c_encode_ret'] != len(want) // 2 or one['c_encoded'] != want:
                    F('encode-differs', 'C encode returned %d bytes %s, Python %s gives %s' % (
                        one['c_encode_ret'], one['c_encoded'][:80], self.codec, want[:80]), vj)
                    continue
                if not one['canary_ok']:
                    F('buffer-overrun', 'C encode wrote past the destination buffer', vj)
                    continue
                if one['small_buffer_failures']:
                    F('short-buffer-accepted', 'C encode into %d bytes (needs %d) returned %d, canary intact=%s' % (
                        one['small_buffer_failures'][0][0], len(want) // 2, one['small_buffer_failures'][0][1],
                        one['small_buffer_failures'][0][2]), vj)
                    continue
                if not one.get('decode_canary_ok', True):
                    F('decode-overrun', 'C decode of %s wrote outside the destination struct' % want[:80], vj)
                    continue
                if one['c_decode_ret'] != len(want) // 2:
                    F('decode-differs', 'C decode of %s returned %d (expected %d)' % (
                        want[:80], one['c_decode_ret'], len(want) // 2), vj)
                    continue
                if not one.get('decoded_equal', False):
                    F('decode-differs', 'C decode of %s gives %s' % (want[:80], one.get('diff')), vj)
                    continue
                rec.cls('value-agrees')
                fs = common.type_features(spec, ty, modname)
                if fs & {'optional', 'default', 'SEQUENCE OF', 'CHOICE', 'ref'}:
                    rec.nt(self.codec, name, spec.text(), vj['value'])
            # V1 C decoder on V2 bytes
            for fj, fr in zip(item.get('foreign', []), r.get('foreign', [])):
                rec.ev()
                v2 = jsonio.dec(fj['value'])
                want = evolve.project(spec, ty, modname, v2)
                if has_unknown_alternative(want):
                    # a V2 alternative in a position V1 knows: the struct has no selector value for it, so the
                    # property's "skips unknown extension additions" (SEQUENCE additions) does not cover it
                    rec.cls('v2-alternative-unrepresentable-in-v1-struct:' +
                            ('rejected' if fr['c_decode_ret'] < 0 else 'accepted'))
                    continue
                if fr['c_decode_ret'] < 0:
                    F('v1-c-decoder-rejects-v2', 'C decoder of V1 returned %d on a V2 encoding %s (steps %s)' % (
                        fr['c_decode_ret'], fj['bytes'][:80], log), {'value': None, 'foreign': fj, 'log': log})
                    continue
                if fr['c_decode_ret'] != len(fj['bytes']) // 2:
                    F('v1-c-decoder-misreads-v2', 'V1 C decoder consumed %d of the %d bytes of a V2 encoding %s '
                      '(steps %s)' % (fr['c_decode_ret'], len(fj['bytes']) // 2, fj['bytes'][:80], log),
                      {'value': None, 'foreign': fj, 'log': log})
                    continue
                if 'decoded' in fr:
                    back = jsonio.dec(fr['decoded'])
                    d = aeq.aeq(spec, ty, modname, want, back, aeq.EqCfg())
                    if d:
                        F('v1-c-decoder-misreads-v2', 'V1 C decoder on V2 bytes: %s (steps %s)' % (d, log),
                          {'value': None, 'foreign': fj, 'log': log})
                        continue
                    rec.cls('v1-c-on-v2-agrees')

    def fuzz(self, rec, work, base_case, feats, job_items, runs):
        """the generator's own libFuzzer harness under ASan+UBSan, seeded with valid encodings and prefixes"""
        exe = os.path.join(work, 'fuzzer')
        if self.codec == 'oer':
            # the harness re-encodes an accepted input into a buffer of the input's size; an OER input written by
            # an older version (shorter addition mask) legitimately re-encodes longer, so give it room
            fz = open(os.path.join(work, 'fuzz.c')).read()
            fz = fz.replace('uint8_t encoded[size];', 'uint8_t encoded[8 * size + 64];')
            fz = fz.replace('uint8_t encoded2[size];', 'uint8_t encoded2[8 * size + 64];')
            open(os.path.join(work, 'fuzz.c'), 'w').write(fz)
        p = subprocess.run(['clang', '-fsanitize=fuzzer,address,undefined', '-fno-sanitize=vla-bound', '-fno-sanitize-recover=all', '-g', '-O1',
                            '-o', exe, os.path.join(work, 'gen.c'), os.path.join(work, 'fuzz.c')],
                           capture_output=True)
        if p.returncode != 0:
            rec.notes['fuzzer-build-failed'] += 1
            rec.notes['fuzzer-build:' + p.stderr.decode('utf-8', 'replace')[-120:]] += 1
            return
        corpus = os.path.join(work, 'corpus')
        os.makedirs(corpus, exist_ok=True)
        k = 0
        for item in job_items:
            for vj in item['values']:
                data = bytes.fromhex(vj['encoded'])
                for cut in range(len(data) + 1):
                    with open(os.path.join(corpus, 'c%d' % k), 'wb') as f:
                        f.write(data[:cut])
                    k += 1
            for fj in item.get('foreign', []):
                with open(os.path.join(corpus, 'c%d' % k), 'wb') as f:
                    f.write(bytes.fromhex(fj['bytes']))
                k += 1
        rec.ev()
        try:
            p = subprocess.run(['stdbuf', '-o0', exe, '-runs=%d' % runs, '-seed=%d' % (env.seed() or 1), '-max_len=256',
                                '-timeout=60', '-artifact_prefix=' + work + '/', corpus],
                               capture_output=True, timeout=900)
        except subprocess.TimeoutExpired:
            rec.notes['libfuzzer-campaign-timeout'] += 1
            return
        rec.cls('libfuzzer-campaigns')
        if p.returncode != 0:
            tail = p.stderr.decode('utf-8', 'replace')
            outp = p.stdout.decode('utf-8', 'replace')
            crash = [fn for fn in os.listdir(work) if fn.startswith(('crash-', 'leak-', 'timeout-', 'oom-'))]
            data = open(os.path.join(work, crash[0]), 'rb').read().hex() if crash else None
            summary = [l for l in tail.splitlines() if 'ERROR' in l or 'SUMMARY' in l or 'runtime error' in l][:3]
            sanitizer = ('AddressSanitizer' in tail or 'runtime error' in tail or 'LeakSanitizer' in tail
                         or 'MemorySanitizer' in tail)
            trap = [l for l in outp.splitlines() if 'failed with' in l or 'does not match' in l]
            case = dict(base_case, fuzz_input=data)
            if sanitizer or not trap:
                kind = 'decoder-hang' if (crash and crash[0].startswith('timeout-')) else 'sanitizer-report'
                rec.fail(Failure(kind, 'libFuzzer/ASan/UBSan on the generated decoder: %s; input %s' % (
                    summary, data), case, feats))
            elif self.codec == 'uper':
                # C09: "anything it accepts re-encodes and re-decodes to the same struct"
                rec.fail(Failure('accepted-input-not-stable', 'the generated harness trapped: %s; input %s' % (
                    trap[0][:100], data), case, feats))
            else:
                # C10 claims memory safety only on arbitrary input
                rec.cls('harness-trap(not claimed by C10):' + trap[0].split(' with')[0][:40])

    def run_shard(self, shard, tier, seed, rec):
        if 'directed' in shard:
            if not shard.get('_shrink'):
                spec, items = directed_modules(self.codec)[shard['directed']]
                rec.cases += 1
                rec.cls('directed-cases')
                self.pipeline(rec, spec, items, None, fuzz_runs=3000 if tier == 'quick' else 200000)
                bad = [k for k in rec.notes if k.startswith('driver-map-error')]
                if bad:
                    raise env.InfraError('C driver could not map values: %r' % bad[:3])
            return
        scale = float(os.environ.get('ASN1V_SCALE', '1'))
        n = max(1, int((10 if tier == "quick" else 150) * scale))
        fuzz_every = 3 if tier == 'quick' else 2
        count = [0]

        def body(case, rec):
            spec, items, outside, spec2, log, v2items = case
            count[0] += 1
            runs = (3000 if tier == 'quick' else 200000) if count[0] % fuzz_every == 0 else 0
            self.pipeline(rec, spec, items, outside, spec2, log, v2items, fuzz_runs=runs)
            rec.cases += 0
            if len(rec.samples) < 2:
                rec.sample({'module_text': spec.text(), 'codec': self.codec, 'outside_subset': outside})
        hyp_run(cases(self.codec), body, seed, n, rec, shrink=shard.get('_shrink', False),
                timeout=shard.get('_timeout'))
        bad = [k for k in rec.notes if k.startswith('driver-map-error')]
        if bad:
            # the struct mapper itself failed: that is a defect of this harness, never a verdict
            raise env.InfraError('C driver could not map values: %r' % bad[:3])

    def replay(self, case, rec):
        spec = jsonio.spec_dec(case['spec'])
        items = []
        if case.get('foreign'):
            self.pipeline(rec, spec, [(case['module'], case['type'], [])], case.get('outside'), log=case.get('log'),
                          foreign_pre={(case['module'], case['type']): [case['foreign']]})
            return
        if case.get('type') and case.get('value') is not None:
            items = [(case['module'], case['type'], [jsonio.dec(case['value'])])]
        else:
            vg_items = case.get('items') or []
            for it in vg_items:
                items.append((it['module'], it['type'], [jsonio.dec(v['value']) for v in it['values']]))
            if not items:
                for m in spec.modules:
                    for name, ty in m.types:
                        items.append((m.name, name, []))
        self.pipeline(rec, spec, items, case.get('outside'))
