import sys
import traceback


def main():
    if len(sys.argv) < 2:
        print('usage: vcheck <ID>|selftest [--tier quick|thorough] [--replay file]')
        return 2
    cid = sys.argv[1]
    try:
        from . import env
        from . import runner
    except Exception:
        traceback.print_exc()
        return 2
    try:
        if cid == 'selftest':
            from . import selftest
            return selftest.main(sys.argv[2:])
        return runner.main('vlib.checks.%s' % cid.lower(), sys.argv[2:])
    except env.InfraError as e:
        print('INFRASTRUCTURE ERROR: %s' % e)
        return 2
    except Exception:
        traceback.print_exc()
        print('HARNESS ERROR (no verdict)')
        return 2


if __name__ == '__main__':
    sys.exit(main())
