"""Helpers shared by the checks: case strategies, case (de)serialisation,
feature extraction, library call wrappers."""
from hypothesis import strategies as st

from . import asn, env, gen, jsonio, values
from .runner import Failure, exc_sig

asn1tools = env.asn1tools
A_Error = asn1tools.errors.Error
A_EncodeError = asn1tools.EncodeError
A_DecodeError = asn1tools.DecodeError
A_ConstraintsError = asn1tools.ConstraintsError
A_CompileError = asn1tools.CompileError
A_ParseError = asn1tools.ParseError


FLOOR_TYPES = ('Dv', 'Dw', 'Use1', 'CO', 'UdA', 'UdB', 'Dc')


@st.composite
def spec_cases(draw, prof, vcfg, max_types=3, max_values=4, type_filter=None):
    """(spec, [(modname, typename, [values])])"""
    spec = draw(gen.specs(prof))
    tops = spec.top_types()
    if type_filter is not None:
        tops = [t for t in tops if type_filter(spec, t)]
    if not tops:
        return (spec, [])
    k = min(len(tops), max_types)
    idx = draw(st.lists(st.integers(0, len(tops) - 1), min_size=1, max_size=k, unique=True))
    # the stratification floors of the generator (containers that share member names and referenced types, the user
    # of an alias chain, the COMPONENTS OF type) are there to be exercised: always take them along
    floor = [i for i, t in enumerate(tops) if t[1] in FLOOR_TYPES and i not in idx]
    idx = idx + floor[:3]
    out = []
    vg = values.VG(draw, spec, vcfg)
    for i in idx:
        m, name, ty = tops[i]
        nv = draw(st.integers(1, max_values))
        vals = [vg.value(ty, m.name) for _ in range(nv)]
        out.append((m.name, name, vals))
    return (spec, out)


def type_features(spec, ty, modname, _seen=None, _depth=0):
    """Set of feature tags describing a type tree (for classes and predicates)."""
    f = set()
    _seen = _seen if _seen is not None else set()
    r = asn.resolve(spec, ty, modname)
    b = r.base
    f.add(b.kind)
    if r.chain:
        f.add('ref')
    if r.tags:
        f.add('tagged')
        for t, _ in r.tags:
            if t.num >= 31:
                f.add('bigtag')
            if t.cls != 'CONTEXT':
                f.add('tagclass')
    if r.rng is not None:
        f.add('range')
        if r.rng.ext:
            f.add('range-ext')
        if (r.rng.lo is None) != (r.rng.hi is None):
            f.add('range-semi')
    if r.size is not None:
        f.add('size')
        if r.size.ext:
            f.add('size-ext')
        if r.size.lo == r.size.hi:
            f.add('size-fixed')
    if r.alpha is not None:
        f.add('from')
    if r.alpha_ext is not None:
        f.add('from-ext')
    if b.named_bits:
        f.add('named-bits')
    if b.named:
        f.add('named-numbers')
    if b.kind == 'ENUMERATED' and b.enum_ext is not None:
        f.add('enum-ext')
    if id(b) in _seen or _depth > 12:
        f.add('recursive')
        return f
    _seen = _seen | {id(b)}
    if b.kind in ('SEQUENCE', 'SET', 'CHOICE'):
        if b.ext is not None:
            f.add('ext')
            if b.ext:
                f.add('additions')
            if any(isinstance(a, asn.Group) for a in b.ext):
                f.add('group')
        if b.root2 is not None:
            f.add('root2')
        if spec.by_name[r.mod].ext_implied:
            f.add('ext-implied')
        for m in b.all_members():
            if m.optional:
                f.add('optional')
            if m.has_default:
                f.add('default')
                f.add('default-' + asn.base_kind(spec, m.ty, r.mod))
                if m.ty.kind == 'REF':
                    f.add('default-via-ref')
            if m.auto is not None:
                f.add('autotag')
            f |= type_features(spec, m.ty, r.mod, _seen, _depth + 1)
    elif b.kind in ('SEQUENCE OF', 'SET OF'):
        f |= type_features(spec, b.elem, r.mod, _seen, _depth + 1)
    return f


def tree_size(spec, ty, modname, _depth=0):
    r = asn.resolve(spec, ty, modname)
    b = r.base
    if _depth > 6:
        return 1
    n = 1
    if b.kind in ('SEQUENCE', 'SET', 'CHOICE'):
        for m in b.all_members():
            n += tree_size(spec, m.ty, r.mod, _depth + 1)
    elif b.kind in ('SEQUENCE OF', 'SET OF'):
        n += tree_size(spec, b.elem, r.mod, _depth + 1)
    return n


def is_empty_value(v):
    if v is None or v == {} or v == [] or v == '' or v == b'':
        return True
    return False


def mk_case(spec, modname, typename, value, **extra):
    c = {'spec': jsonio.spec_enc(spec), 'text': spec.texts(), 'module': modname,
         'type': typename, 'value': jsonio.enc(value)}
    c.update(extra)
    return c


def load_case(case):
    spec = jsonio.spec_dec(case['spec'])
    ty = dict(spec.by_name[case['module']].types)[case['type']]
    return spec, case['module'], case['type'], ty, jsonio.dec(case['value'])


def compile_spec(spec, codec, numeric_enums=False, rec=None):
    """compile_string on the printed spec.  Returns None (and counts) if the
    library refuses or fails to compile: outside every property's statement."""
    try:
        return asn1tools.compile_string(spec.text(), codec, numeric_enums=numeric_enums)
    except Exception as e:
        if rec is not None:
            rec.discarded['uncompilable:%s:%s' % exc_sig(e)] += 1
        return None


def value_weight(v):
    """rough size of a value: leaves plus string/byte lengths in units of 16"""
    if isinstance(v, dict):
        return 1 + sum(value_weight(x) for x in v.values())
    if isinstance(v, list):
        return 1 + sum(value_weight(x) for x in v)
    if isinstance(v, tuple):
        return 1 + sum(value_weight(x) for x in v)
    if isinstance(v, (bytes, bytearray, str)):
        return 1 + len(v) // 16
    return 1


def short(v, n=300):
    s = repr(v)
    return s if len(s) <= n else s[:n] + '...'


# ---------------------------------------------------------------------------
# walkers (used by known-finding predicates and by several oracles)

class Node(object):
    __slots__ = ('r', 'ty', 'mod', 'parent', 'member', 'path', 'value', 'skippable', 'index',
                 'in_additions')

    def __init__(self, **kw):
        self.value = NOVALUE
        self.member = None
        self.parent = None
        self.skippable = False
        self.index = None
        self.in_additions = False
        for k, v in kw.items():
            setattr(self, k, v)


class _NoValue(object):
    def __repr__(self):
        return '<no value>'


NOVALUE = _NoValue()


def walk_types(spec, ty, modname, path='', parent=None, member=None, _seen=None, **kw):
    r = asn.resolve(spec, ty, modname)
    n = Node(r=r, ty=ty, mod=modname, parent=parent, member=member, path=path, **kw)
    yield n
    b = r.base
    _seen = _seen or ()
    if id(b) in _seen:
        return
    _seen = _seen + (id(b),)
    if b.kind in ('SEQUENCE', 'SET', 'CHOICE'):
        adds = set()
        for a in (b.ext or []):
            for m in (a.members if isinstance(a, asn.Group) else [a]):
                adds.add(id(m))
        for i, m in enumerate(b.all_members()):
            for x in walk_types(spec, m.ty, r.mod, path + '.' + m.name, n, m, _seen,
                                skippable=(m.optional or m.has_default or id(m) in adds),
                                index=i, in_additions=id(m) in adds):
                yield x
    elif b.kind in ('SEQUENCE OF', 'SET OF'):
        for x in walk_types(spec, b.elem, r.mod, path + '[]', n, None, _seen):
            yield x


def walk_values(spec, ty, modname, value, path='', parent=None, member=None):
    r = asn.resolve(spec, ty, modname)
    n = Node(r=r, ty=ty, mod=modname, parent=parent, member=member, path=path, value=value)
    yield n
    b = r.base
    try:
        if b.kind in ('SEQUENCE', 'SET') and isinstance(value, dict):
            for m in b.all_members():
                if m.name in value:
                    for x in walk_values(spec, m.ty, r.mod, value[m.name], path + '.' + m.name, n, m):
                        yield x
        elif b.kind == 'CHOICE' and isinstance(value, tuple) and len(value) == 2:
            for m in b.all_members():
                if m.name == value[0]:
                    for x in walk_values(spec, m.ty, r.mod, value[1], path + '.' + m.name, n, m):
                        yield x
        elif b.kind in ('SEQUENCE OF', 'SET OF') and isinstance(value, list):
            for i, v in enumerate(value[:50]):
                for x in walk_values(spec, b.elem, r.mod, v, '%s[%d]' % (path, i), n, None):
                    yield x
    except Exception:
        return


def zero_width(spec, ty, modname, _depth=0):
    """True if every value of the type has an empty PER/OER-style encoding
    (no length, no index, no content): NULL, fixed SIZE(0), single-value INTEGER,
    member-less SEQUENCE/SET, one-item non-extensible ENUMERATED, ..."""
    if _depth > 8:
        return False
    r = asn.resolve(spec, ty, modname)
    b = r.base
    k = b.kind
    if k == 'NULL':
        return True
    if k == 'INTEGER':
        return r.rng is not None and not r.rng.ext and r.rng.lo is not None and r.rng.lo == r.rng.hi
    if k in ('SEQUENCE OF', 'SET OF') and r.size is not None and not r.size.ext and \
            r.size.lo is not None and r.size.lo == r.size.hi and r.size.lo > 0:
        # fixed number of zero-width elements
        return zero_width(spec, b.elem, r.mod, _depth + 1)
    if k in ('OCTET STRING', 'BIT STRING', 'SEQUENCE OF', 'SET OF') or k in asn.STRING_KINDS:
        z = r.size is not None and not r.size.ext and r.size.lo == 0 and r.size.hi == 0
        return z and k not in ('UTF8String', 'GeneralString', 'GraphicString', 'TeletexString')
    if k == 'ENUMERATED':
        return len(b.enum_root) == 1 and b.enum_ext is None
    if k in ('SEQUENCE', 'SET'):
        if b.ext is not None or spec.by_name[r.mod].ext_implied:
            return False
        return all((not m.optional and not m.has_default and zero_width(spec, m.ty, r.mod, _depth + 1))
                   for m in b.all_members())
    if k == 'CHOICE':
        if b.ext is not None or spec.by_name[r.mod].ext_implied:
            return False
        ms = b.all_members()
        return len(ms) == 1 and zero_width(spec, ms[0].ty, r.mod, _depth + 1)
    return False


# ---------------------------------------------------------------------------
# generic "generated spec x type x value x codec" check

import os as _os
from .runner import Check as _Check, hyp_run as _hyp_run, watchdog as _watchdog, CaseHang as _CaseHang


class Ctx(object):
    """One oracle invocation: compiled spec c, AST spec, type and value."""
    __slots__ = ('c', 'spec', 'modname', 'name', 'ty', 'v', 'codec', 'ne', 'rec', 'shard', 'extra',
                 '_feats')

    def __init__(self, **kw):
        self.extra = {}
        self._feats = None
        for k, v in kw.items():
            setattr(self, k, v)

    def feats(self):
        if self._feats is None:
            self._feats = sorted(type_features(self.spec, self.ty, self.modname)) + ['codec:' + self.codec]
        return self._feats

    def case(self, **extra):
        e = dict(self.extra)
        e.update(extra)
        return mk_case(self.spec, self.modname, self.name, self.v, codec=self.codec,
                       numeric_enums=self.ne, **e)

    def fail(self, kind, msg, exc=None, **extra):
        self.rec.fail(Failure(kind, msg, self.case(**extra), self.feats(),
                              exc_sig(exc) if exc is not None else None))

    def encode(self, **kw):
        """Library encode with checks on.  Returns bytes, or None when the case is
        outside the property (declared unsupported / rejected by the library's own checks)."""
        try:
            return self.c.encode(self.name, self.v, check_types=True, check_constraints=True, **kw)
        except NotImplementedError:
            self.rec.cls('declared-unsupported')
        except (A_EncodeError, A_ConstraintsError) as ex:
            self.rec.cls('rejected-by-library:' + type(ex).__name__)
        except Exception as ex:
            # an encoder crash is C01's business; this check needs an encoding to start from
            self.rec.cls('encode-crash(C01):' + type(ex).__name__)
        return None


class SpecValueCheck(_Check):
    codecs = ['ber']
    quick_n = 60
    thorough_n = 1200
    max_types = 3
    max_values = 4
    numeric_enums_variants = (False, True)
    hang_seconds = 20

    def profile(self, tier, shard):
        p = gen.Profile()
        if tier == 'thorough':
            p.max_types, p.max_depth = 6, 4
            p.big_size_shapes = gen.BIG_SIZE_SHAPES + gen.HUGE_SIZE_SHAPES
        if _os.environ.get('ASN1V_SMALL') == '1':
            p.max_types, p.max_depth, p.max_members, p.max_modules = 2, 2, 3, 1
        return p

    def valcfg(self, tier, shard):
        return values.ValCfg(numeric_enums=shard['ne'], big=shard.get('big', False))

    def type_filter(self, shard):
        return None

    def shards(self, tier):
        out = []
        for codec in self.codecs:
            for ne in self.numeric_enums_variants:
                out.append({'codec': codec, 'ne': ne})
        for codec in self.codecs:
            out.append({'codec': codec, 'ne': False, 'directed': True})
        i = 0
        while len(out) < 16:
            ne = (i // len(self.codecs)) % 2 == 1 and True in self.numeric_enums_variants
            out.append({'codec': self.codecs[i % len(self.codecs)], 'ne': ne, 'extra': i,
                        'big': tier == 'thorough'})
            i += 1
        return out

    def oracle(self, x):
        raise NotImplementedError

    def directed(self, tier, shard):
        """Cases built by construction (stratification floor): list of
        (spec, [(modname, typename, [values])]).  Run in shards flagged 'directed'."""
        return []

    def compile(self, spec, shard, rec):
        return compile_spec(spec, shard['codec'], shard['ne'], rec)

    def run_shard(self, shard, tier, seed, rec):
        scale = float(_os.environ.get('ASN1V_SCALE', '1'))
        n = max(1, int((self.quick_n if tier == 'quick' else self.thorough_n) * scale))
        strat = spec_cases(self.profile(tier, shard), self.valcfg(tier, shard),
                           max_types=self.max_types, max_values=self.max_values,
                           type_filter=self.type_filter(shard))

        def body(case, rec):
            spec, items = case
            if not items:
                return
            c = self.compile(spec, shard, rec)
            if c is None:
                return
            rec.cls('modules')
            for modname, name, vals in items:
                ty = dict(spec.by_name[modname].types)[name]
                for v in vals:
                    x = Ctx(c=c, spec=spec, modname=modname, name=name, ty=ty, v=v,
                            codec=shard['codec'], ne=shard['ne'], rec=rec, shard=shard)
                    try:
                        with _watchdog(self.hang_seconds):
                            self.oracle(x)
                    except _CaseHang:
                        w = value_weight(v)
                        if w > 3000:
                            # a time budget hit on a big value is inconclusive, never a violation
                            rec.cls('inconclusive:watchdog-on-large-value')
                        else:
                            x.fail('hang', 'a library call on this small case (weight %d) did not return within '
                                   '%d s; value %s' % (w, self.hang_seconds, short(v)))
        if shard.get('directed'):
            for case in self.directed(tier, shard):
                rec.cases += 1
                rec.cls('directed-cases')
                body(case, rec)
            return
        _hyp_run(strat, body, seed, n, rec, shrink=shard.get('_shrink', False),
                 timeout=shard.get('_timeout'))

    def replay(self, case, rec):
        spec, modname, name, ty, v = load_case(case)
        codec, ne = case['codec'], case.get('numeric_enums', False)
        shard = {'codec': codec, 'ne': ne}
        shard.update(case.get('shard', {}))
        c = self.compile_replay(spec, shard, case)
        x = Ctx(c=c, spec=spec, modname=modname, name=name, ty=ty, v=v, codec=codec, ne=ne,
                rec=rec, shard=shard)
        x.extra = {k: case[k] for k in case.get('extra_keys', []) if k in case}
        try:
            with _watchdog(self.hang_seconds):
                self.replay_oracle(x, case)
        except _CaseHang:
            x.fail('hang', 'a library call on this case did not return within %d s' % self.hang_seconds)

    def compile_replay(self, spec, shard, case):
        return asn1tools.compile_string(spec.text(), shard['codec'], numeric_enums=shard['ne'])

    def replay_oracle(self, x, case):
        self.oracle(x)

    def sample(self, x, **extra):
        if len(x.rec.samples) < 2 or x.rec.evaluations % 101 == 0:
            s = {'codec': x.codec, 'numeric_enums': x.ne, 'type': x.name,
                 'module_text': x.spec.text(), 'value': jsonio.enc(x.v)}
            s.update(extra)
            x.rec.sample(s)


def map_values(spec, ty, modname, value, fn, _counter=None):
    """Rebuild value, calling fn(index, resolved, value) -> replacement for every node in the
    same order as walk_values (pre-order).  fn returns NOVALUE to keep the node."""
    counter = _counter if _counter is not None else [0]
    r = asn.resolve(spec, ty, modname)
    idx = counter[0]
    counter[0] += 1
    new = fn(idx, r, value)
    if new is not NOVALUE:
        return new
    b = r.base
    if b.kind in ('SEQUENCE', 'SET') and isinstance(value, dict):
        out = {}
        for m in b.all_members():
            if m.name in value:
                out[m.name] = map_values(spec, m.ty, r.mod, value[m.name], fn, counter)
        for k in value:
            if k not in out:
                out[k] = value[k]
        return out
    if b.kind == 'CHOICE' and isinstance(value, tuple) and len(value) == 2:
        for m in b.all_members():
            if m.name == value[0]:
                return (value[0], map_values(spec, m.ty, r.mod, value[1], fn, counter))
        return value
    if b.kind in ('SEQUENCE OF', 'SET OF') and isinstance(value, list):
        out = []
        for i, v in enumerate(value):
            if i < 50:
                out.append(map_values(spec, b.elem, r.mod, v, fn, counter))
            else:
                out.append(v)
        return out
    return value
