"""Locate the repository under test and import asn1tools from it.

Every check imports asn1tools through this module so that the code exercised
is the current working tree of /repo (or ASN1V_REPO for sensitivity runs on a
scratch copy).  Importing anything else is an infrastructure error (exit 2).
"""
import os
import sys

VERIF_DIR = os.path.dirname(os.path.dirname(os.path.abspath(__file__)))
REPO = os.path.abspath(os.environ.get('ASN1V_REPO', '/repo'))

if REPO not in sys.path[:1]:
    sys.path.insert(0, REPO)

DEPS = os.path.join(VERIF_DIR, '.deps')
if os.path.isdir(DEPS) and DEPS not in sys.path:
    sys.path.append(DEPS)


class InfraError(Exception):
    """Harness / environment problem: exit status 2, never a VIOLATION."""


def load():
    try:
        import asn1tools
    except Exception as e:  # pragma: no cover
        raise InfraError('cannot import asn1tools from %s: %r' % (REPO, e))
    path = os.path.abspath(asn1tools.__file__)
    if not path.startswith(REPO + os.sep):
        raise InfraError('asn1tools imported from %s, expected under %s' % (path, REPO))
    return asn1tools


asn1tools = load()


def seed():
    try:
        return int(os.environ.get('VERIF_SEED', '1'))
    except ValueError:
        return 1
