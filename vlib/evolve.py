"""V1 -> V2 by legal extension steps only (C07): new SEQUENCE/SET additions or
groups, new CHOICE alternatives, new ENUMERATED items, wider extensible ranges."""
import copy

from hypothesis import strategies as st

from . import asn, gen
from .asn import Ty, Member, Group, Tag, Rng


def ext_nodes(spec):
    out = []
    for m in spec.modules:
        for name, t in m.types:
            if t.raw is not None:
                continue
            for n in t.walk():
                if n.kind in ('SEQUENCE', 'SET', 'CHOICE') and (n.ext is not None or m.ext_implied):
                    out.append(('members', m, name, n))
                if n.kind == 'ENUMERATED' and n.enum_ext is not None:
                    out.append(('enum', m, name, n))
                if n.kind == 'INTEGER' and n.rng is not None and n.rng.ext and n.rng.hi is not None:
                    out.append(('range', m, name, n))
    return out


def new_tag(node, mod, draw=None):
    ms = node.all_members()
    if mod.tagdefault == 'AUTOMATIC' and not any(x.ty.tag is not None for x in ms):
        return None
    used = [x.ty.tag.num for x in ms if x.ty.tag is not None and x.ty.tag.cls == 'CONTEXT']
    free = [n for n in range(0, 64) if n not in used]
    if draw is not None and free:
        # any unused number: a newer addition may well carry a lower tag than an older one
        return Tag('CONTEXT', free[draw(st.integers(0, len(free) - 1))])
    return Tag('CONTEXT', max(used + [39]) + 1)


def evolve(draw, spec1, prof):
    spec2 = copy.deepcopy(spec1)
    spec2.link()
    log = []
    g = gen._G(draw, prof)
    g.modules = spec2.modules
    for m in spec2.modules:
        for name, t in m.types:
            g.avail.append((m.name, name, asn.base_kind(spec2, t, m.name)))
    counter = [0]
    steps = draw(st.integers(1, 5))
    for _ in range(steps):
        nodes = ext_nodes(spec2)
        if not nodes:
            break
        # prefer nodes that already have additions: the relative position of old and new ones matters
        rich = [x for x in nodes if x[0] == 'members' and x[3].ext]
        # ... and SETs whose marker has no addition yet: the first addition changes how the decoder walks the SET
        bare_sets = [x for x in nodes if x[0] == 'members' and x[3].kind == 'SET' and not x[3].ext and x[3].root]
        r_ = draw(st.integers(0, 99))
        pool = rich if (rich and r_ < 40) else (bare_sets if (bare_sets and r_ < 65) else nodes)
        kind, mod, tname, node = pool[draw(st.integers(0, len(pool) - 1))]
        if kind == 'members':
            if node.ext is None:
                node.ext = []       # write the implied marker explicitly
            counter[0] += 1

            def mk(suffix=''):
                nm = 'new%d%s' % (counter[0], suffix)
                saved = (g.p.refs, g.p.recursion)
                ty = g.anytype(mod, max(1, prof.max_depth - 1), None)
                m_ = Member(nm, ty)
                has_ref = any(x.kind == 'REF' for x in ty.walk())
                if node.kind != 'CHOICE':
                    r = draw(st.integers(0, 99))
                    if r < 40 or has_ref:
                        # a reference may close a cycle through the extended type: keep a finite escape
                        m_.optional = True
                    elif r < 60:
                        g.try_default(m_, mod)
                return m_
            if node.kind != 'CHOICE' and prof.groups and draw(st.integers(0, 99)) < 30:
                members = [mk('a'), mk('b')] if draw(st.booleans()) else [mk('a')]
                node.ext.append(Group(members))
                log.append('group@' + tname)
            else:
                members = [mk()]
                node.ext.append(members[0])
                log.append(('alternative@' if node.kind == 'CHOICE' else 'addition@') + tname)
            spec2.link()
            for m_ in members:
                g.fix_tags(spec2, m_.ty, mod)
                m_.ty.tag = None
            spec2.link()
            for m_ in members:
                tg = new_tag(node, mod, draw)
                if tg is not None:
                    m_.ty.tag = tg
                elif mod.tagdefault != 'AUTOMATIC':
                    m_.ty.tag = Tag('CONTEXT', 40 + counter[0])
                spec2.link()
        elif kind == 'enum':
            counter[0] += 1
            used = [e[1] for e in node.enum_root] + [e[1] for e in node.enum_ext]
            node.enum_ext.append(('new-item%d' % counter[0], max(used + [0]) + draw(st.integers(1, 3)), True))
            log.append('enum-item@' + tname)
        elif kind == 'range':
            top = max([node.rng.hi] + [b for _, b in node.rng.more])
            a = top + draw(st.integers(1, 5))
            node.rng.more = tuple(node.rng.more) + ((a, a + draw(st.integers(0, 300))),)
            log.append('range@' + tname)
    spec2.link()
    return spec2, log


def project(spec1, ty1, modname, v2):
    """The V1 view of a V2 value: unknown members dropped, unknown alternative -> (None, None),
    unknown enumeration item -> None."""
    r = asn.resolve(spec1, ty1, modname)
    b = r.base
    k = b.kind
    if k in ('SEQUENCE', 'SET') and isinstance(v2, dict):
        out = {}
        for m in b.all_members():
            if m.name in v2:
                out[m.name] = project(spec1, m.ty, r.mod, v2[m.name])
        return out
    if k == 'CHOICE' and isinstance(v2, tuple):
        for m in b.all_members():
            if m.name == v2[0]:
                return (v2[0], project(spec1, m.ty, r.mod, v2[1]))
        return (None, None)
    if k == 'ENUMERATED':
        names = [e[0] for e in list(b.enum_root) + list(b.enum_ext or [])]
        nums = [e[1] for e in list(b.enum_root) + list(b.enum_ext or [])]
        if v2 in names or (isinstance(v2, int) and v2 in nums):
            return v2
        return None
    if k in ('SEQUENCE OF', 'SET OF') and isinstance(v2, list):
        return [project(spec1, b.elem, r.mod, x) for x in v2]
    return v2


def uses_unknown(spec1, ty1, modname, v2):
    """(uses a construct unknown to V1, a known component follows it)"""
    state = {'unknown': False, 'after': False}

    def rec(ty, mod, v):
        r = asn.resolve(spec1, ty, mod)
        b = r.base
        k = b.kind
        if k in ('SEQUENCE', 'SET') and isinstance(v, dict):
            known = {m.name: m for m in b.all_members()}
            for key in v:
                if key not in known:
                    state['unknown'] = True
            for m in b.all_members():
                if m.name in v:
                    rec(m.ty, r.mod, v[m.name])
            if state['unknown'] and any(kk in known for kk in v):
                state['after'] = True
        elif k == 'CHOICE' and isinstance(v, tuple):
            for m in b.all_members():
                if m.name == v[0]:
                    rec(m.ty, r.mod, v[1])
                    return
            state['unknown'] = True
        elif k == 'ENUMERATED':
            if v not in [e[0] for e in list(b.enum_root) + list(b.enum_ext or [])]:
                state['unknown'] = True
        elif k in ('SEQUENCE OF', 'SET OF') and isinstance(v, list):
            for x in v:
                rec(b.elem, r.mod, x)
    rec(ty1, modname, v2)
    return state['unknown'], state['after']
