"""Narrow input predicates for the entries of /verif/known-findings.txt.

A predicate sees the failing *input* (codec/config, AST type, value) through a
lazily loaded context and says whether the failure is the listed finding.
Predicates are over inputs, never over symptoms; each names its root cause.
known-findings.txt is never written at run time."""
from . import asn

PREDICATES = {}      # (property, finding id) -> function(ctx) -> bool


def finding(props, fid):
    def deco(fn):
        for p in ([props] if isinstance(props, str) else props):
            PREDICATES[(p, fid)] = fn
        return fn
    return deco


class Ctx(object):
    def __init__(self, failure):
        self.f = failure
        self.case = failure.case
        self.codec = failure.case.get('codec')
        self._loaded = None

    def load(self):
        if self._loaded is None:
            from . import common
            try:
                self._loaded = common.load_case(self.case)
            except Exception:
                self._loaded = False
        return self._loaded

    def tnodes(self):
        from . import common
        ld = self.load()
        if not ld:
            return []
        spec, modname, name, ty, v = ld
        return list(common.walk_types(spec, ty, modname))

    def vnodes(self):
        from . import common
        ld = self.load()
        if not ld:
            return []
        spec, modname, name, ty, v = ld
        return list(common.walk_values(spec, ty, modname, v))

    @property
    def spec(self):
        ld = self.load()
        return ld[0] if ld else None


def match(prop, failure):
    ctx = None
    for (p, fid), fn in PREDICATES.items():
        if p != prop:
            continue
        if ctx is None:
            ctx = Ctx(failure)
        try:
            if fn(ctx):
                return fid
        except Exception:
            continue
    return None


BINARY = ('C01', 'C16', 'C15', 'C18', 'C13', 'C19', 'C07', 'C03', 'C04', 'C05', 'C06', 'C08')
KM_STRINGS = ('NumericString', 'PrintableString', 'VisibleString', 'IA5String', 'BMPString',
              'UniversalString')


def untagged_choice_alt(ctx, n):
    """n is a CHOICE node with an alternative that is itself an untagged CHOICE."""
    if n.r.base.kind != 'CHOICE':
        return False
    for m in n.r.base.all_members():
        if m.auto is not None:
            continue
        layers, r = asn.effective_tags(ctx.spec, m.ty, n.r.mod)
        if not layers and r.base.kind == 'CHOICE':
            return True
    return False


@finding(BINARY, 'oer-choice-in-choice')
def _oer_choice_in_choice(ctx):
    # oer.py Choice.add_tags/encode: an alternative that is an untagged CHOICE has tag None
    return ctx.codec == 'oer' and any(untagged_choice_alt(ctx, n) for n in ctx.tnodes())


@finding(BINARY, 'oer-utf8-fixed-size')
def _oer_utf8_fixed(ctx):
    # oer.py: UTF8String (SIZE(n)) is encoded as n octets without length (pinned by tests/test_oer.py)
    if ctx.codec != 'oer':
        return False
    for n in ctx.vnodes():
        if (n.r.base.kind == 'UTF8String' and n.r.size is not None and not n.r.size.ext
                and n.r.size.lo == n.r.size.hi and isinstance(n.value, str)
                and len(n.value.encode('utf-8')) != len(n.value)):
            return True
    return False


@finding(BINARY, 'ber-skippable-ext-choice')
def _ber_skippable_ext_choice(ctx):
    # ber.py Choice.decode: an extensible untagged CHOICE treats any unknown tag as an unknown
    # alternative, so an absent OPTIONAL/DEFAULT one swallows the next member
    if ctx.codec not in ('ber', 'der'):
        return False
    from . import gen
    for n in ctx.tnodes():
        if n.member is None or n.parent is None or n.parent.r.base.kind not in ('SEQUENCE', 'SET'):
            continue
        if n.r.base.kind != 'CHOICE' or n.member.auto is not None:
            continue
        layers, r = asn.effective_tags(ctx.spec, n.ty, n.mod)
        if layers:
            continue
        if not gen.is_ext(ctx.spec, n.r.base, n.r.mod):
            continue
        if n.skippable or n.parent.r.base.kind == 'SET':
            return True
    return False


@finding(BINARY, 'per-ext-open-bound')
def _per_ext_open_bound(ctx):
    # per.py/uper.py compare len(data) with 'MAX'/None when an extensible constraint has MIN/MAX
    if ctx.codec not in ('per', 'uper'):
        return False
    for n in ctx.tnodes():
        for c in (n.r.size, n.r.rng):
            if c is not None and c.ext and (c.lo is None or c.hi is None):
                if c is n.r.rng and n.r.base.kind != 'INTEGER':
                    continue
                return True
    return False


@finding(BINARY, 'per-from-single-char')
def _per_from_single(ctx):
    # per.py KnownMultiplierStringType: alphabet of one character gives 0 bits per character and
    # the decoder rebuilds an empty string
    if ctx.codec not in ('per', 'uper'):
        return False
    for n in ctx.tnodes():
        if n.r.alpha is not None and len(n.r.alpha.chars()) == 1 and n.r.base.kind in KM_STRINGS:
            return True
    return False


@finding(BINARY, 'per-group-zero-bits')
def _per_group_zero_bits(ctx):
    # per.py encode_addition_group/encode_additions: a [[ ]] group whose present members all
    # encode to zero bits is treated as absent
    if ctx.codec not in ('per', 'uper'):
        return False
    from . import common
    for n in ctx.vnodes():
        b = n.r.base
        if b.kind not in ('SEQUENCE', 'SET') or not isinstance(n.value, dict):
            continue
        for a in (b.ext or []):
            if isinstance(a, asn.Group):
                present = [m for m in a.members if m.name in n.value]

                def no_bits(m):
                    return common.zero_width(ctx.spec, m.ty, n.r.mod)

                def is_default(m):
                    # (a DEFAULT member given its default value is not encoded: it does not count as present)
                    from . import aeq
                    cfg = aeq.EqCfg(numeric_enums=bool(ctx.case.get('numeric_enums')))
                    try:
                        return m.has_default and aeq.aeq(ctx.spec, m.ty, n.r.mod, aeq.default_value(
                            ctx.spec, m, n.r.mod, cfg), n.value[m.name], cfg) is None
                    except Exception:
                        return False
                encoded = [m for m in present if not is_default(m)]
                if encoded and all(no_bits(m) for m in encoded):
                    return True
    return False


def _strings(v):
    if isinstance(v, str):
        yield v
    elif isinstance(v, (list, tuple)):
        for x in v:
            for s in _strings(x):
                yield s
    elif isinstance(v, dict):
        for x in v.values():
            for s in _strings(x):
                yield s


@finding(('C02', 'C13', 'C18', 'C19', 'C07'), 'xer-carriage-return')
def _xer_cr(ctx):
    # xer.py: ElementTree writes U+000D literally; every XML reader normalises it to U+000A
    if ctx.codec != 'xer':
        return False
    from . import jsonio
    return any('\r' in s for s in _strings(jsonio.dec(ctx.case.get('value'))))


@finding(BINARY, 'per-from-overlap')
def _per_from_overlap(ctx):
    # per.py get_permitted_alphabet: overlapping FROM items are counted twice
    if ctx.codec not in ('per', 'uper'):
        return False
    for n in ctx.tnodes():
        if n.r.alpha is not None:
            total = sum(ord(b) - ord(a) + 1 for a, b in n.r.alpha.items)
            if total != len(n.r.alpha.chars()):
                return True
    return False


def _int_like(s):
    try:
        int(s)
        return True
    except (ValueError, TypeError):
        return False


def _digits_default_via_ref(spec):
    """a member whose type is a *reference* to a character string type with a DEFAULT that int() accepts"""
    from . import common
    for m in spec.modules:
        for _, t in m.types:
            for n in common.walk_types(spec, t, m.name):
                mem = n.member
                if (mem is not None and mem.has_default and n.ty.kind == 'REF'
                        and n.r.base.kind in asn.STRING_KINDS and isinstance(mem.default, str)
                        and _int_like(mem.default)):
                    return True
    return False


@finding(BINARY + ('C02', 'C20'), 'cstring-default-via-ref-digits')
def _cstring_default_via_ref(ctx):
    # parser.py convert_value: the member type is a reference, so a cstring DEFAULT made of digits
    # is converted with int()
    return ctx.spec is not None and _digits_default_via_ref(ctx.spec)


@finding('C19', 'cstring-default-via-ref-digits')
def _cstring_default_via_ref_c19(ctx):
    from . import jsonio
    try:
        a = jsonio.spec_dec(ctx.case['arranged'])
        o = jsonio.spec_dec(ctx.case['spec'])
    except Exception:
        return False
    return _digits_default_via_ref(a) != _digits_default_via_ref(o)


@finding('C12', 'error-swallowed-in-additions')
def _c12_additions(ctx):
    # ber.py:724, per.py:768, oer.py:412 encode_additions: 'except EncodeError: pass' drops any codec-side
    # error raised below an extension addition (missing mandatory member, unknown ENUMERATED name)
    c = ctx.case
    if ctx.codec not in ('ber', 'der', 'per', 'uper', 'oer'):
        return False
    probe = c.get('probe', '')
    return bool(c.get('under_addition')) and (probe.startswith('missing:') or probe == 'enum<-unknown-name')


@finding('C12', 'path-recursive-dedup')
def _c12_recursive_path(ctx):
    # codecs/__init__.py add_location: a location equal to the previous one is dropped; below two or more
    # recursive hops the same member object repeats, so codec-side errors report 'B.rec' for 'B.rec.rec'
    c = ctx.case
    return c.get('recursive_hops', 0) >= 2 and ctx.f.kind == 'wrong-path'


def _set_with_recursive_member(spec):
    from . import arrange
    for m in spec.modules:
        for name, t in m.types:
            for n in t.walk():
                if n.kind != 'SET':
                    continue
                for mem in n.all_members():
                    if mem.ty.kind == 'REF' and (m.name, name) in arrange.reachable(spec, m.name, mem.ty.ref):
                        return True
    return False


@finding('C19', 'set-with-recursive-member')
def _c19_set_recursive(ctx):
    # ber.py/per.py/oer.py compile_members(sort_by_tag=True): a SET member that is a recursive reference has
    # no tag yet when the members are sorted, compile raises TypeError; whether a reference is 'recursive'
    # depends on which type is compiled first, i.e. on how the specification is organised
    from . import jsonio
    if ctx.f.kind != 'compile-differs':
        return False
    try:
        a = jsonio.spec_dec(ctx.case['arranged'])
        o = jsonio.spec_dec(ctx.case['spec'])
    except Exception:
        return False
    return _set_with_recursive_member(a) or _set_with_recursive_member(o)


def components_of_foreign_refs(spec):
    """a type included with COMPONENTS OF from another module has a component whose type is a reference that
    does not resolve to the same definition from the including module"""
    for m in spec.modules:
        for name, t in m.types:
            for x in (t.raw_refs or []):
                try:
                    xt, xm = spec.lookup(x, m.name)
                except KeyError:
                    continue
                if xm == m.name:
                    continue
                for mem in (xt.root or []):
                    for n in mem.ty.walk():
                        if n.kind != 'REF':
                            continue
                        try:
                            if spec.lookup(n.ref, m.name)[1] != spec.lookup(n.ref, xm)[1]:
                                return True
                        except KeyError:
                            return True
    return False


def valueref_at_foreign_ref(spec):
    """a range / SIZE constraint with a value reference as bound, written at a reference to a type that is defined in
    another module"""
    for m in spec.modules:
        for name, t in m.types:
            for n in t.walk():
                if n.kind != 'REF':
                    continue
                if not any(c is not None and (c.lo_txt or c.hi_txt) for c in (n.rng, n.size)):
                    continue
                try:
                    if spec.lookup(n.ref, m.name)[1] != m.name:
                        return True
                except KeyError:
                    continue
    return False


@finding('C19', 'valueref-at-foreign-ref')
def _c19_valueref_foreign(ctx):
    # codecs/compiler.py: the bounds of a constraint written at a type reference are looked up in the module of the
    # REFERENCED type ("Value 'v2' not found in module 'Split2'"), not in the module where the constraint is written
    from . import jsonio
    try:
        a = jsonio.spec_dec(ctx.case['arranged'])
        o = jsonio.spec_dec(ctx.case['spec'])
    except Exception:
        return False
    return valueref_at_foreign_ref(a) or valueref_at_foreign_ref(o)


@finding('C19', 'components-of-foreign-refs')
def _c19_components_of_foreign(ctx):
    # codecs/compiler.py pre_process_components_of_expand_members copies the member descriptors of the
    # referenced type into the including module as text; a type reference inside them is then looked up in the
    # including module, where it is not visible (CompileError "Type 'Ext1' not found in module 'M'")
    from . import jsonio
    try:
        a = jsonio.spec_dec(ctx.case['arranged'])
        o = jsonio.spec_dec(ctx.case['spec'])
    except Exception:
        return False
    return components_of_foreign_refs(a) or components_of_foreign_refs(o)


def _xer_recursive_of_element(spec):
    from . import arrange
    for m in spec.modules:
        for name, t in m.types:
            for n in t.walk():
                if n.kind in ('SEQUENCE OF', 'SET OF') and n.elem.kind == 'REF':
                    try:
                        k = asn.base_kind(spec, n.elem, m.name)
                    except Exception:
                        continue
                    if k in ('CHOICE', 'ENUMERATED', 'BOOLEAN', 'NULL') and \
                            (m.name, name) in arrange.reachable(spec, m.name, n.elem.ref):
                        return True
    return False


@finding('C07', 'xer-recursive-of-element')
def _c07_xer_recursive(ctx):
    # xer.py Recursive has no encode_of/decode_of: a CHOICE/ENUMERATED/BOOLEAN/NULL element of SEQUENCE OF
    # that is reached through a *recursive* reference is wrapped in an extra element, so the XML differs
    # between a version where the reference is recursive and one where it is not
    if ctx.codec != 'xer':
        return False
    from . import jsonio
    try:
        s1 = jsonio.spec_dec(ctx.case['spec'])
        s2 = jsonio.spec_dec(ctx.case['spec2'])
    except Exception:
        return False
    return _xer_recursive_of_element(s1) != _xer_recursive_of_element(s2)


@finding('C08', 'of-zero-width-elements')
def _c08_zero_width(ctx):
    # oer.py:541 / per.py:979 ArrayType.decode: the element count is read from the input and the loop is
    # bounded only by out-of-data errors, which never occur when an element encodes to zero bits
    # (NULL, empty SEQUENCE, single-value INTEGER, SIZE(0) strings): 4 input bytes -> millions of elements
    if ctx.codec not in ('oer', 'per', 'uper'):
        return False
    from . import common
    for n in ctx.tnodes():
        b = n.r.base
        if b.kind in ('SEQUENCE OF', 'SET OF') and common.zero_width(ctx.spec, b.elem, n.r.mod):
            return True
        # same loop shape: a known-multiplier string whose permitted alphabet has one character
        # needs zero bits per character
        if ctx.codec != 'oer' and b.kind in KM_STRINGS and n.r.alpha is not None and len(n.r.alpha.chars()) == 1:
            return True
    return False


@finding(('C03', 'C04'), 'implicit-tag-on-tagged-choice')
def _implicit_on_tagged_choice(ctx):
    # codecs/compiler.py pre_process_tags_type: a tag without keyword is made EXPLICIT whenever the
    # referenced type *resolves* to CHOICE, also when that CHOICE definition carries its own tag
    # ('A ::= [30] CHOICE {...}', 'rec [2] A'); X.680 31.2.7 makes it explicit only for an UNTAGGED choice
    for n in ctx.tnodes():
        if n.r.base.kind != 'CHOICE':
            continue
        if n.member is not None:
            layers, r = asn.member_tags(ctx.spec, n.member, n.parent.r.mod)
        else:
            layers, r = asn.effective_tags(ctx.spec, n.ty, n.mod)
        if len(layers) >= 2 and not layers[-2][2]:
            return True
    return False


@finding(('C03', 'C04'), 'root2-before-additions')
def _root2_before_additions(ctx):
    # ber.py compile_members / MembersType.encode_content: root components written after the second
    # extension marker are merged into the root list and encoded BEFORE the extension additions;
    # X.690 8.9.2 orders SEQUENCE components as they appear in the definition
    for n in ctx.tnodes():
        b = n.r.base
        if b.kind == 'SEQUENCE' and b.root2 and b.ext:
            return True
    return False


@finding('C05', 'per-empty-complete-encoding')
def _per_empty(ctx):
    # per.py Encoder.as_bytearray: a value that encodes to zero bits yields b''; X.691 10.1.3 makes the
    # complete encoding a single zero octet
    return bool(ctx.case.get('zero_bits')) and ctx.f.kind == 'not-x691'


@finding(('C05', 'C09'), 'per-choice-root-order')
def _per_choice_order(ctx):
    # per.py Choice: the index of a root alternative is its position in the definition; X.691 23.1
    # numbers the alternatives in the canonical order of their tags (X.680 8.6)
    if ctx.codec not in ('per', 'uper'):
        return False
    from .model.tlv import tag_key
    for n in ctx.tnodes():
        b = n.r.base
        if b.kind != 'CHOICE':
            continue
        keys = [min(tag_key(c, num) for c, num in asn.member_outer_tag_set(ctx.spec, m, n.r.mod))
                for m in (b.root or [])]
        if keys != sorted(keys):
            return True
    return False


@finding('C05', 'per-universalstring-size-ignored')
def _per_universal_size(ctx):
    # per.py UniversalString is a plain StringType: its SIZE constraint (PER-visible, known-multiplier
    # type of 32 bits per character, X.691 30) is ignored and an unconstrained length is written
    if ctx.codec not in ('per', 'uper'):
        return False
    return any(n.r.base.kind == 'UniversalString' and n.r.size is not None for n in ctx.tnodes())


@finding(('C05', 'C07'), 'per-empty-open-type')
def _per_empty_open_type(ctx):
    # per.py encode_additions / Choice.encode_additions: an extension addition whose value encodes to zero
    # bits is wrapped with length 0; X.691 10.2.1/10.1.3 make every open type at least one (zero) octet
    if ctx.codec not in ('per', 'uper'):
        return False
    from . import common
    for n in ctx.vnodes():
        b = n.r.base
        if b.kind in ('SEQUENCE', 'SET') and isinstance(n.value, dict):
            for a in (b.ext or []):
                for m in (a.members if isinstance(a, asn.Group) else [a]):
                    if m.name in n.value and common.zero_width(ctx.spec, m.ty, n.r.mod) \
                            and not isinstance(a, asn.Group):
                        return True
        if b.kind == 'CHOICE' and isinstance(n.value, tuple):
            for a in (b.ext or []):
                for m in (a.members if isinstance(a, asn.Group) else [a]):
                    if m.name == n.value[0] and common.zero_width(ctx.spec, m.ty, n.r.mod):
                        return True
    return False


@finding(('C05', 'C06'), 'per-size-at-reference-ignored')
def _per_size_at_ref(ctx):
    # per.py BitString / ArrayType have no set_size_range: a SIZE constraint written at a reference to a
    # BIT STRING / SEQUENCE OF / SET OF type ('e Al1 (SIZE(1..9))') is not PER-visible to the library
    if ctx.codec not in ('per', 'uper', 'oer'):
        return False
    for n in ctx.tnodes():
        if n.ty.kind == 'REF' and n.ty.size is not None:
            if n.r.base.kind in ('BIT STRING', 'SEQUENCE OF', 'SET OF'):
                return True
            if ctx.codec == 'oer' and n.r.base.kind in asn.STRING_KINDS:
                return True     # oer.py KnownMultiplierStringType has no set_size_range either
            if n.member is None:
                # not a member: element of SEQUENCE/SET OF or a top-level 'B ::= A (SIZE(..))'; only
                # compile_member applies the size of a reference
                return True
    return False


@finding('C07', 'nested-ext-choice-unknown-alternative')
def _c07_nested_choice(ctx):
    # ber.py / oer.py Choice: the tag table of a CHOICE lists the known tags of a nested untagged CHOICE;
    # an alternative added to the nested (extensible) CHOICE by V2 is not attributed to it
    if ctx.codec not in ('ber', 'der', 'oer'):
        return False
    from . import gen
    for n in ctx.tnodes():
        if n.r.base.kind != 'CHOICE':
            continue
        for m in n.r.base.all_members():
            if m.auto is not None:
                continue
            layers, r = asn.effective_tags(ctx.spec, m.ty, n.r.mod)
            if not layers and r.base.kind == 'CHOICE' and gen.is_ext(ctx.spec, r.base, r.mod):
                return True
    return False


def _raw_size(v):
    if isinstance(v, dict):
        return sum(_raw_size(x) for x in v.values())
    if isinstance(v, (list, tuple)):
        return sum(_raw_size(x) for x in v)
    if isinstance(v, (bytes, bytearray, str)):
        return len(v)
    return 1


@finding(('C01', 'C05'), 'per-open-type-16k')
def _per_open_type_16k(ctx):
    # per.py encode_additions / Choice.encode_additions: the open type that wraps an extension addition or a CHOICE
    # extension alternative is written with ONE length determinant; from 16384 octets on that is a fragment header
    # followed by all the data (X.691 11.9.3.8 requires fragments), and the CHOICE decoder then skips a wrong
    # number of bits
    if ctx.codec not in ('per', 'uper'):
        return False
    for n in ctx.vnodes():
        if n.member is None or n.parent is None:
            continue
        pb = n.parent.r.base
        in_ext = False
        for a in (pb.ext or []):
            for mm in (a.members if isinstance(a, asn.Group) else [a]):
                if mm is n.member:
                    in_ext = True
        if in_ext and _raw_size(n.value) >= 15000:
            return True
    return False


@finding('C05', 'per-aligned-from-reindex')
def _per_aligned_from(ctx):
    # per.py KnownMultiplierStringType.__init__ (aligned): when the power-of-two character width chosen for a
    # FROM alphabet could also hold the type's whole built-in alphabet, characters are numbered by their
    # position in the BUILT-IN alphabet; X.691 30.5.4 re-indexes within the permitted alphabet
    if ctx.codec != 'per':
        return False
    full = {'NumericString': 11, 'PrintableString': 74, 'VisibleString': 95, 'IA5String': 128}
    for n in ctx.tnodes():
        k = n.r.base.kind
        if n.r.alpha is None or k not in full:
            continue
        nperm = len(n.r.alpha.chars())
        b = (nperm - 1).bit_length() if nperm > 1 else 0
        b2 = 1
        while b2 < b:
            b2 *= 2
        if b and full[k] <= 2 ** b2 and nperm != full[k]:
            return True
    return False


@finding('C06', 'oer-fixed-bmp-universal-length')
def _oer_fixed_bmp(ctx):
    # oer.py compile_type: BMPString / UniversalString are compiled without their SIZE, so a fixed-size
    # string still gets a length determinant (X.696 27: fixed-size known-multiplier strings have none)
    for n in ctx.tnodes():
        s = n.r.size
        if n.r.base.kind in ('BMPString', 'UniversalString') and s is not None and not s.ext \
                and s.lo is not None and s.lo == s.hi:
            return True
    return False


@finding(('C06', 'C10'), 'oer-groups-flattened')
def _oer_groups(ctx):
    # oer.py compile_extension_member: the members of a [[ ]] group become individual extension additions
    # (one presence bit and one open type each); X.696 16 encodes a group as ONE addition holding a SEQUENCE
    for n in ctx.tnodes():
        b = n.r.base
        if b.kind in ('SEQUENCE', 'SET') and any(isinstance(a, asn.Group) for a in (b.ext or [])):
            return True
    return False


@finding('C06', 'oer-utf8-fixed-size-ascii')
def _oer_utf8_fixed_any(ctx):
    # same root cause as C01 oer-utf8-fixed-size, visible in the bytes even for ASCII text
    for n in ctx.tnodes():
        s = n.r.size
        if n.r.base.kind == 'UTF8String' and s is not None and not s.ext and s.lo is not None and s.lo == s.hi:
            return True
    return False


# ---------------------------------------------------------------------------
# C09 / C10: generated C code

def _c_types(ctx):
    """walk_types nodes of the failing type, or of every type of the module set for module-level failures"""
    from . import common, jsonio
    c = ctx.case
    spec = jsonio.spec_dec(c['spec'])
    out = []
    if c.get('module') and c.get('type'):
        ty = dict(spec.by_name[c['module']].types)[c['type']]
        return spec, list(common.walk_types(spec, ty, c['module']))
    for m in spec.modules:
        for name, ty in m.types:
            out.extend(common.walk_types(spec, ty, m.name))
    return spec, out


def _constructed_addition(nodes):
    for n in nodes:
        if n.in_additions and n.parent is not None and n.parent.r.base.kind == 'SEQUENCE' \
                and n.r.base.kind in ('SEQUENCE', 'CHOICE', 'SEQUENCE OF'):
            return True
    return False


@finding('C10', 'oer-c-addition-length-static')
def _oer_c_addition_length(ctx):
    # source/c/oer.py get_encoded_*_lengths: the length prefix of an extension addition is computed from the
    # type, not from the value: OPTIONAL/DEFAULT members of an addition SEQUENCE are counted as present, list
    # elements as fixed-size, and the helper for a CHOICE is named after the member only and written for the
    # wrong struct (does not compile for a referenced CHOICE or a CHOICE list element)
    if ctx.f.kind not in ('encode-differs', 'does-not-compile'):
        return False
    if ctx.f.kind == 'does-not-compile' and 'length' not in ctx.f.message:
        return False
    spec, nodes = _c_types(ctx)
    return _constructed_addition(nodes)


@finding(('C09', 'C10'), 'c-choice-additions-dropped')
def _c_choice_additions(ctx):
    # source/c/oer.py get_choice_members/format_choice_inner use root_members only: the alternatives after
    # '...' of a CHOICE are missing from the generated enum, union, encoder and decoder
    if ctx.f.kind not in ('mis-translation', 'named-bit-constant', 'v1-c-decoder-rejects-v2'):
        return False
    spec, nodes = _c_types(ctx)
    if ctx.f.kind == 'v1-c-decoder-rejects-v2':
        # the V2 value, seen by V1, selects an alternative V1 declares after '...'
        from . import common, evolve, jsonio
        c = ctx.case
        ty = dict(spec.by_name[c['module']].types)[c['type']]
        v1 = evolve.project(spec, ty, c['module'], jsonio.dec(c['foreign']['value']))
        for n in common.walk_values(spec, ty, c['module'], v1):
            b = n.r.base
            if b.kind == 'CHOICE' and isinstance(n.value, tuple) and b.ext:
                names = set()
                for a in b.ext:
                    for m in (a.members if isinstance(a, asn.Group) else [a]):
                        names.add(m.name)
                if n.value[0] in names:
                    return True
        return False
    if ctx.f.kind == 'named-bit-constant':
        return any(n.in_additions and n.parent is not None and n.parent.r.base.kind == 'CHOICE' for n in nodes)
    if 'has no enumerator' not in ctx.f.message:
        return False
    for n in ctx.vnodes():
        b = n.r.base
        if b.kind == 'CHOICE' and isinstance(n.value, tuple) and b.ext:
            names = set()
            for a in b.ext:
                for m in (a.members if isinstance(a, asn.Group) else [a]):
                    names.add(m.name)
            if n.value[0] in names:
                return True
    return False


@finding(('C05',), 'per-aligned-small-number-ge-64')
def _per_aligned_small_number(ctx):
    # per.py Encoder.append_normally_small_non_negative_whole_number: for n >= 64 the length determinant and
    # the value are appended without octet alignment (X.691 11.6.2 -> 11.7/11.9: octet-aligned in the ALIGNED
    # variant); pinned by tests/test_per.py::test_enumerated ('cm' -> c0 50 00), so not repairable here
    if ctx.codec != 'per':
        return False
    for n in ctx.vnodes():
        b = n.r.base
        if b.kind == 'ENUMERATED' and b.enum_ext:
            items = sorted(b.enum_ext, key=lambda e: e[1])
            for i, e in enumerate(items):
                if i >= 64 and n.value in (e[0], e[1]):
                    return True
        if b.kind == 'CHOICE' and b.ext and isinstance(n.value, tuple):
            i = 0
            for a in b.ext:
                for m in (a.members if isinstance(a, asn.Group) else [a]):
                    if m.name == n.value[0] and i >= 64:
                        return True
                    i += 1
    return False
