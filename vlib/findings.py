"""Narrow input predicates for the entries of /verif/known-findings.txt.

A predicate sees a Failure (kind, features of the failing *input*, case) and
says whether that failure is the listed finding.  Predicates are over inputs,
not symptoms; each names its root cause.  The file known-findings.txt is never
written at run time."""

PREDICATES = {}      # (property, finding id) -> function(failure) -> bool


def finding(prop, fid):
    def deco(fn):
        PREDICATES[(prop, fid)] = fn
        return fn
    return deco


def match(prop, failure):
    for (p, fid), fn in PREDICATES.items():
        if p == prop and fn(failure):
            return fid
    return None
