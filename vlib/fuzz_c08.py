"""atheris (libFuzzer) target for C08, run as a child process by checks/c08.py (thorough tier).

job.json: {"repo": ..., "codec": ..., "entries": [{"text": module text, "type": name, "valid": [hex...],
           "rate": float, "tsize": int}], "floor": int, "factor": int, "out": dir}
Input bytes: byte 0 selects the entry, the rest is given to decode.  Oracle (inside the target): the decode returns or
raises within the deterministic work budget, and the same compiled object still decodes its sentinel afterwards."""
import json
import os
import sys

job = json.load(open(sys.argv[1]))
sys.path.insert(0, job['repo'])
sys.path.insert(0, job['verif'])
import atheris  # noqa

with atheris.instrument_imports(include=['asn1tools']):
    import asn1tools  # noqa

from vlib.checks.c08 import metered  # noqa  (sys.setprofile based work meter)

assert os.path.abspath(asn1tools.__file__).startswith(os.path.abspath(job['repo'])), asn1tools.__file__

ENTRIES = []
for e in job['entries']:
    c = asn1tools.compile_string(e['text'], job['codec'])
    sentinel = bytes.fromhex(e['valid'][0])
    expected = repr(c.decode(e['type'], sentinel))
    ENTRIES.append((c, e['type'], sentinel, expected, e['rate'], e['tsize'], set(e['valid'])))
STATS = {'execs': 0, 'nontrivial': 0, 'returned': 0, 'raised': 0}
SEEN = set()


def report(kind, idx, data, msg):
    with open(os.path.join(job['out'], 'finding.json'), 'w') as f:
        json.dump({'kind': kind, 'entry': idx, 'input': data.hex(), 'message': msg}, f)
    raise RuntimeError(kind)


def flush():
    with open(os.path.join(job['out'], 'stats.json'), 'w') as f:
        json.dump(dict(STATS, distinct=len(SEEN)), f)


def one(data):
    if len(data) < 1:
        return
    idx = data[0] % len(ENTRIES)
    body = bytes(data[1:])
    c, name, sentinel, expected, rate, tsize, valid = ENTRIES[idx]
    budget = int(max(job['floor'], job['factor'] * max(rate, 1.0) * (len(body) + 64) * (tsize + 1)))
    r = metered(lambda: c.decode(name, body), budget)
    STATS['execs'] += 1
    if r[0] in ('work', 'memory'):
        report('unbounded-' + r[0], idx, body, 'decode of %d bytes exceeded %d call events' % (len(body), budget))
    STATS['returned' if r[0] == 'ok' else 'raised'] += 1
    try:
        s = repr(c.decode(name, sentinel))
    except Exception as ex:
        s = 'raised %r' % (ex,)
    if s != expected:
        report('state-corrupted', idx, body, 'sentinel decodes to %s afterwards' % s[:100])
    if body and body.hex() not in valid:
        h = hash((idx, body))
        if h not in SEEN and len(SEEN) < 200000:
            SEEN.add(h)
        STATS['nontrivial'] += 1
    if STATS['execs'] % 2000 == 0:
        flush()


flush()
atheris.Setup([sys.argv[0]] + sys.argv[2:], one)
atheris.Fuzz()
