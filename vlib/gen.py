"""Hypothesis generators for ASN.1 module sets over the AST in vlib.asn.

Soundness first: only legal ASN.1 in the notation asn1tools documents as
supported is produced (distinct-tag rules are enforced by construction).
"""
from hypothesis import strategies as st

from . import asn
from .asn import Ty, Member, Group, Tag, Rng, Alpha, Module, Spec

MEMBER_NAMES = ['a', 'b', 'c', 'd', 'e', 'f', 'g', 'h', 'i', 'j', 'k', 'l', 'm', 'n',
                'foo', 'bar', 'a-b', 'c-d-e', 'fooBar', 'x1', 'y2', 'aB', 'ab', 'value',
                'id', 'data', 'len', 'type', 'true-x', 'null-y', 'set-z', 'of-w', 'u',
                'v', 'w', 'p', 'q', 'r', 's', 't', 'o']
ENUM_NAMES = ['red', 'green', 'blue', 'dark-red', 'e1', 'e2', 'on', 'off', 'aa', 'bb',
              'cc', 'dd', 'ee', 'ff', 'gg', 'hh', 'x', 'y', 'z']
BIT_NAMES = ['b0', 'b1', 'b2', 'flag', 'first-bit', 'last', 'k', 'q']
TYPE_NAMES = ['A', 'B', 'C', 'D', 'E', 'F', 'G', 'H', 'J', 'K', 'L', 'N', 'P', 'Q', 'R', 'S',
              'Foo', 'Bar', 'My-Type', 'T1', 'T2', 'Aa', 'AB', 'Msg', 'Hdr', 'Body', 'Item']
MODULE_NAMES = ['M', 'Mod2', 'Other-Mod', 'X3']

BOUNDS = [0, 1, 2, 3, 7, 8, 15, 16, 127, 128, 255, 256, 257, 32767, 32768, 65535, 65536,
          65537, 2 ** 31 - 1, 2 ** 31, 2 ** 32 - 1, 2 ** 32, 2 ** 63 - 1, 2 ** 63,
          2 ** 64 - 1, 2 ** 64]


BIG_SIZE_SHAPES = [(0, 127), (0, 128), (0, 255), (0, 256), (1, 256), (0, 257), (0, 65535), (0, 65536),
                   (1, 65536), (0, 70000), (128, 128), (127, 129), (255, 257), (256, 256), (200, 300)]
HUGE_SIZE_SHAPES = [(65535, 65535), (65536, 65536), (65535, 65537), (16384, 16384), (16383, 16385)]


class Profile(object):
    """What the generator may produce.  Each check narrows this to the domain
    its property quantifies over."""

    def __init__(self, **kw):
        # the 11 string and 5 time kinds would otherwise be two thirds of all primitive nodes
        self.kinds = list(asn.PRIMS) + ['BOOLEAN', 'INTEGER', 'INTEGER', 'ENUMERATED', 'ENUMERATED', 'NULL',
                                        'BIT STRING', 'OCTET STRING', 'REAL']
        self.constructed = list(asn.CONSTRUCTED)
        self.tagdefaults = ['', 'EXPLICIT', 'IMPLICIT', 'AUTOMATIC']
        self.max_modules = 2
        self.min_types = 1
        self.max_types = 5
        self.max_depth = 3
        self.max_members = 4
        self.tags = True            # hand-written tags
        self.big_tags = True        # tag numbers >= 31
        self.tag_classes = ['CONTEXT', 'APPLICATION', 'PRIVATE']
        self.ext = True             # extension markers / additions
        self.groups = True
        self.root2 = True           # root members after a second marker
        self.refs = True
        self.recursion = True
        self.defaults = True
        self.optionals = True
        self.real_defaults = False
        self.constraints = True
        self.ext_constraints = True
        self.semi_constraints = True    # lo..MAX / MIN..hi
        self.alpha = True
        self.size_with_alpha = True
        self.alpha_ext = True       # extensible permitted alphabet, written (FROM(...), ...)
        self.valuerefs = True
        self.named = True           # named numbers / named bits
        self.named_rate = 15        # percent of INTEGER types with named numbers
        self.ext_implied = True
        self.real_wc = False
        self.ref_constraints = True     # constraints written at a reference
        self.enum_ext = True
        self.int_bits = None        # None, or limit |bounds| to < 2**int_bits
        self.require_bounded = False    # C subset: integers/sizes always bounded
        self.unique_member_names_ci = False
        self.empty_containers = True
        self.max_size_bound = 40    # upper limit for generated SIZE bounds
        self.elem_names = True
        self.top_tags = True
        self.wide_additions = True
        self.very_wide_additions = False    # 63/64/65 additions (normally-small length boundary)
        self.via_ref_floor = True
        self.ref_constraint_rate = 12
        self.stack_rate = 10            # percent of references to an already constrained type that narrow it further
        self.via_ref_floor_rate = 45
        self.ext_rate = 35
        self.choice_tags_ascending_rate = 30
        self.bit_fixed_max = None
        self.real_wc_always = False
        self.real_wc_near = False           # WITH COMPONENTS ranges next to the binary32/binary64 shapes
        self.default_kinds = None       # restrict DEFAULT to these base kinds
        # SIZE bounds on both sides of the one/two-octet length forms and of the 64K limit of PER constrained
        # lengths, beyond max_size_bound (values stay short unless the lower bound forces a length)
        self.alias_chain_rate = 10      # percent of specs that get 'Ch1 ::= X', 'Ch2 ::= Ch1' and a user of the alias
        self.dup_names_rate = 8         # percent of specs in which two modules define different types of one name
        self.same_defaults_rate = 0     # percent of specs whose modules share tag and extensibility defaults
        self.components_of_tagged = False   # COMPONENTS OF a type whose components carry hand-written tags (only for
        #                                     checks whose oracle is the library itself: C13, C19)
        self.components_of_rate = 0     # percent of specs that get a 'CO ::= SEQUENCE { COMPONENTS OF X, ... }'
        self.big_size_rate = 8
        self.big_size_shapes = BIG_SIZE_SHAPES
        for k, v in kw.items():
            if not hasattr(self, k):
                raise AttributeError(k)
            setattr(self, k, v)


# ---------------------------------------------------------------------------

class _G(object):
    """Generation context for one spec."""

    def __init__(self, draw, prof):
        self.draw = draw
        self.p = prof
        self.modules = []
        self.avail = []      # [(modname, typename, kind-of-base)]
        self.uid = 0

    def d(self, s):
        return self.draw(s)

    def chance(self, p):
        # p in percent
        return self.d(st.integers(0, 99)) < p

    def pick(self, seq):
        return self.d(st.sampled_from(list(seq)))

    # ---- constraints
    def bound(self):
        if self.chance(70):
            b = self.pick(BOUNDS)
        else:
            b = self.d(st.integers(0, 2 ** 16))
        if self.p.int_bits is not None and b >= 2 ** (self.p.int_bits - 1):
            b = b % (2 ** (self.p.int_bits - 1))
        return b

    def int_range(self, mod):
        """A value-range constraint for INTEGER."""
        kind = self.d(st.integers(0, 99))
        semi_ok = self.p.semi_constraints and not self.p.require_bounded
        if kind < 10:
            v = self.bound() * self.pick([1, -1])
            r = Rng(v, v)
        elif kind < 20 and semi_ok:
            r = Rng(self.bound() * self.pick([1, 1, -1]), None)
        elif kind < 25 and semi_ok:
            r = Rng(None, self.bound() * self.pick([1, -1]))
        elif kind < 28 and semi_ok:
            r = Rng(None, None)
        else:
            a = self.bound() * self.pick([1, 1, -1])
            w = self.pick([0, 1, 2, 3, 7, 254, 255, 256, 65534, 65535, 65536, 2 ** 32 - 1,
                           2 ** 32, 2 ** 63]) if self.chance(50) else self.bound()
            lo, hi = a, a + w
            if self.p.int_bits is not None:
                lim = 2 ** (self.p.int_bits - 1)
                lo = max(lo, -lim)
                hi = min(hi, lim - 1 if lo < 0 else 2 * lim - 1)
                if hi < lo:
                    hi = lo
            r = Rng(lo, hi)
        if self.p.ext_constraints and self.chance(20) and not self.p.require_bounded:
            r.ext = True
            if self.chance(40) and r.hi is not None:
                a = r.hi + self.pick([1, 2, 10, 1000])
                r.more = ((a, a + self.pick([0, 1, 100])),)
        if self.p.valuerefs and self.chance(12):
            # write one bound as a value reference
            if r.lo is not None and self.chance(50):
                r.lo_txt = self.valueref(mod, r.lo)
            elif r.hi is not None:
                r.hi_txt = self.valueref(mod, r.hi)
        return r

    def valueref(self, mod, value):
        for n, v in mod.values:
            if v == value:
                return n
        n = 'v%d' % (len(mod.values) + 1) if self.chance(50) else 'max-%d' % (len(mod.values) + 1)
        mod.values.append((n, value))
        return n

    def size_range(self, mod, maxb=None):
        small = maxb is not None
        maxb = self.p.max_size_bound if maxb is None else maxb
        kind = self.d(st.integers(0, 99))
        if self.p.big_size_rate and self.p.big_size_shapes and self.chance(self.p.big_size_rate):
            lo, hi = self.pick(self.p.big_size_shapes)
            if small and lo > 64:
                lo = 0      # lists: long only by choice of the value generator
            r = Rng(lo, hi)
        elif kind < 30:
            # (sizes 0 and 1 are boundary cases of their own: an always-empty value, no length field)
            n = self.pick([0, 0, 1, 2]) if self.chance(20) else self.d(st.integers(0, maxb))
            r = Rng(n, n)
        elif kind < 40 and not self.p.require_bounded and self.p.semi_constraints:
            r = Rng(self.d(st.integers(0, maxb)), None)
        else:
            lo = self.d(st.integers(0, maxb))
            hi = lo + self.d(st.integers(0, maxb))
            r = Rng(lo, hi)
        if self.p.ext_constraints and self.chance(20) and not self.p.require_bounded:
            r.ext = True
        if self.p.valuerefs and self.chance(8) and r.hi is not None and r.hi != r.lo:
            r.hi_txt = self.valueref(mod, r.hi)
        return r

    def alphabet(self, kind):
        full = {'NumericString': asn.NUMERIC_ALPHA, 'PrintableString': asn.PRINTABLE_ALPHA,
                'VisibleString': asn.VISIBLE_ALPHA, 'IA5String': asn.VISIBLE_ALPHA}.get(kind)
        if full is None:
            full = asn.VISIBLE_ALPHA
        full = ''.join(c for c in sorted(full) if c != '"')
        items = []
        n = self.d(st.integers(1, 3))
        for _ in range(n):
            i = self.d(st.integers(0, len(full) - 1))
            if self.chance(60):
                j = min(len(full) - 1, i + self.d(st.integers(1, 20)))
                # ranges must be contiguous in code points
                if ord(full[j]) - ord(full[i]) == j - i:
                    items.append((full[i], full[j]))
                    continue
            items.append((full[i], full[i]))
        # write the alphabet as disjoint items (asn1tools mis-counts overlapping
        # ranges; overlapping unions are left to a dedicated probe, see DESIGN)
        chars = sorted(set(c for a, b in items for c in map(chr, range(ord(a), ord(b) + 1))))
        out = []
        for c in chars:
            if out and ord(out[-1][1]) + 1 == ord(c) and self.chance(85):
                out[-1] = (out[-1][0], c)
            else:
                out.append((c, c))
        return Alpha(out)

    # ---- types
    def prim(self, mod, depth):
        k = self.pick(self.p.kinds)
        t = Ty(k)
        P = self.p
        if k == 'INTEGER':
            if P.named and self.chance(P.named_rate):
                # few names, so that different types name different numbers with the same identifier
                names = self.d(st.lists(st.sampled_from(ENUM_NAMES[:6] * 3 + ENUM_NAMES), min_size=1, max_size=3,
                                        unique=True))
                start = self.pick([-2, -2, -20, 0, 1, 5, 90])
                t.named = [(n, start + i * 3) for i, n in enumerate(names)]
            if (P.constraints and self.chance(60)) or P.require_bounded:
                t.rng = self.int_range(mod)
            if t.named and P.constraints and not P.require_bounded and self.chance(50):
                # bounds written as named numbers of this very type (the same identifiers name other values in other
                # types: the names come from a small pool and the values from the position)
                vals = sorted(t.named, key=lambda nv: nv[1])
                (ln, lv), (hn, hv) = vals[0], vals[-1]
                if ln == hn:
                    w = self.pick([0, 1, 7, 255, 1000])
                    t.rng = Rng(lv, lv + w, lo_txt=ln) if self.chance(50) else Rng(lv - w, lv, hi_txt=ln)
                else:
                    t.rng = Rng(lv, hv, lo_txt=ln, hi_txt=hn)
        elif k == 'ENUMERATED':
            self.enum(t, mod)
        elif k == 'BIT STRING' and P.bit_fixed_max:
            # C subset: fixed size, at most bit_fixed_max bits
            n = self.pick([1, 7, 8, 9, 16, 17, 32, 33, 64]) if self.chance(60) else \
                self.d(st.integers(1, P.bit_fixed_max))
            n = min(n, P.bit_fixed_max)
            t.size = Rng(n, n)
            if P.named and self.chance(40):
                names = self.d(st.lists(st.sampled_from(BIT_NAMES), min_size=1, max_size=3, unique=True))
                poss = self.d(st.lists(st.integers(0, n - 1), min_size=len(names), max_size=len(names),
                                       unique=True)) if n >= len(names) else []
                if len(poss) == len(names):
                    t.named_bits = list(zip(names, poss))
        elif k == 'BIT STRING':
            if P.named and self.chance(35):
                names = self.d(st.lists(st.sampled_from(BIT_NAMES), min_size=1, max_size=4,
                                        unique=True))
                poss = self.d(st.lists(st.integers(0, 20), min_size=len(names),
                                       max_size=len(names), unique=True))
                t.named_bits = list(zip(names, poss))
            if (P.constraints and self.chance(50)) or P.require_bounded:
                t.size = self.size_range(mod)
                if t.named_bits and t.size.hi is not None:
                    need = max(p for _, p in t.named_bits) + 1
                    if t.size.hi < need:
                        t.size = Rng(t.size.lo, need, t.size.ext)
                        if t.size.lo > need:
                            t.size.lo = need
        elif k == 'OCTET STRING':
            if (P.constraints and self.chance(50)) or P.require_bounded:
                t.size = self.size_range(mod)
        elif k in asn.STRING_KINDS:
            if P.constraints and self.chance(50):
                t.size = self.size_range(mod)
            if (P.constraints and P.alpha and self.chance(30)
                    and k in ('NumericString', 'PrintableString', 'VisibleString', 'IA5String')
                    and (P.size_with_alpha or t.size is None)):
                t.alpha = self.alphabet(k)
                if P.ext_constraints and P.alpha_ext and t.size is None and self.chance(20):
                    t.alpha.ext = True      # (FROM(...), ...)
        elif k == 'REAL':
            if P.real_wc and (P.real_wc_always or self.chance(50)):
                t.wc = self.pick([(-16777215, 16777215, 2, -149, 104),
                                  (-9007199254740991, 9007199254740991, 2, -1074, 971)])
                if P.real_wc_near and self.chance(35):
                    # X.696 12.2/12.3: ranges just inside / just outside the binary32 and binary64 shapes
                    t.wc = self.pick([(-16777215, 16777215, 2, -149, 105), (-16777215, 16777215, 2, -149, 127),
                                      (-16777215, 16777215, 2, -150, 104), (-16777216, 16777215, 2, -149, 104),
                                      (-16777215, 16777216, 2, -149, 104), (-100, 100, 2, -10, 10),
                                      (0, 16777215, 2, -149, 104), (-16777215, 16777215, 2, -126, 104),
                                      (-9007199254740991, 9007199254740991, 2, -1074, 972),
                                      (-9007199254740991, 9007199254740991, 2, -1075, 971),
                                      (-9007199254740992, 9007199254740991, 2, -1074, 971),
                                      (-9007199254740991, 9007199254740991, 2, -1022, 1023),
                                      (-16777215, 16777215, 10, -149, 104)])
        return t

    def enum(self, t, mod):
        n = self.d(st.integers(1, 5))
        names = self.d(st.lists(st.sampled_from(ENUM_NAMES), min_size=n, max_size=n, unique=True))
        style = self.d(st.integers(0, 2))
        used = set()
        root = []
        if style == 0:      # all implicit
            for i, nm in enumerate(names):
                root.append((nm, i, False))
                used.add(i)
        elif style == 1:    # all explicit, possibly negative / large / unordered
            if self.chance(40):
                # dense around zero: almost 0..n-1 (codecs and generators special-case the exact 0..n-1 shape)
                pool = list(range(-3, n + 2))
            else:
                pool = [-129, -128, -1, 0, 1, 2, 5, 127, 128, 255, 256, 32767, 32768, 70000]
            vals = self.d(st.lists(st.sampled_from(pool), min_size=n, max_size=n, unique=True))
            for nm, v in zip(names, vals):
                root.append((nm, v, True))
                used.add(v)
        else:               # mixed: explicit ones first decided, implicit get smallest unused
            explicit = {}
            for nm in names:
                if self.chance(40):
                    v = self.pick([0, 1, 2, 3, 5, 10, 200])
                    if v not in explicit.values():
                        explicit[nm] = v
            nxt = 0
            # X.680 19.3: implicit items get successive integers starting at 0,
            # skipping any value used by an explicit item
            taken = set(explicit.values())
            for nm in names:
                if nm in explicit:
                    root.append((nm, explicit[nm], True))
                else:
                    while nxt in taken:
                        nxt += 1
                    root.append((nm, nxt, False))
                    taken.add(nxt)
            used = taken
        t.enum_root = root
        want_ext = (self.p.enum_ext and self.p.ext and self.chance(30)) or mod.ext_implied
        if want_ext:
            ext = []
            k = self.d(st.integers(0, 3))
            pool = [x for x in ENUM_NAMES if x not in names]
            extnames = self.d(st.lists(st.sampled_from(pool), min_size=k, max_size=k, unique=True))
            base = max(list(used) + [0]) + 1
            for i, nm in enumerate(extnames):
                # explicit, strictly increasing, larger than every root value
                ext.append((nm, base + i * 2, True))
            t.enum_ext = ext

    def ref(self, mod, want=None):
        cands = [a for a in self.avail if want is None or a[2] in want]
        if not cands:
            return None
        amod, name, kind = self.pick(cands)
        if amod != mod.name:
            if not self.p.refs or self.p.max_modules < 2:
                return None
            # name must not clash with a local definition
            if name in mod.type_map():
                return None
            mod.imports.setdefault(amod, [])
            if name not in mod.imports[amod]:
                # a symbol may be imported from one module only
                for frm, syms in mod.imports.items():
                    if frm != amod and name in syms:
                        return None
                mod.imports[amod].append(name)
        t = Ty('REF', ref=name)
        P = self.p
        if P.ref_constraints and P.constraints and P.stack_rate and self.chance(P.stack_rate):
            # serial application: a narrower range / size on top of the referenced type's own (non-extensible,
            # bounded) one, optionally extensible
            target = self.lookup_avail(amod, name)
            c = None
            if target is not None and target.kind == 'INTEGER':
                c = target.rng
            elif target is not None and target.kind in ('OCTET STRING', 'SEQUENCE OF', 'SET OF', 'IA5String',
                                                        'VisibleString', 'UTF8String') and target.alpha is None:
                c = target.size
            n = self.narrow(c)
            if n is not None:
                if target.kind == 'INTEGER':
                    t.rng = n
                else:
                    t.size = n
                return t
        if P.ref_constraints and P.constraints and self.chance(P.ref_constraint_rate):
            # narrow an unconstrained base through the reference
            target = self.lookup_avail(amod, name)
            if target is not None and target.kind == 'INTEGER' and target.rng is None:
                t.rng = self.int_range(mod)
            elif (target is not None and target.size is None and target.alpha is None and
                  target.kind in ['OCTET STRING', 'SEQUENCE OF', 'SET OF', 'IA5String',
                                  'UTF8String', 'VisibleString']):
                t.size = self.size_range(mod)
            elif (target is not None and target.kind == 'BIT STRING' and target.size is None
                  and not target.named_bits):
                t.size = self.size_range(mod)
        return t

    def narrow(self, c):
        """a narrower, optionally extensible range inside the bounded non-extensible range c (serial application)"""
        P = self.p
        if (c is None or c.ext or c.lo is None or c.hi is None or c.hi - c.lo < 1 or c.lo_txt or c.hi_txt):
            return None
        w = c.hi - c.lo
        a_ = self.pick([0, 0, 1, 2, w // 2])
        b_ = self.pick([0, 1, 1, 2, w // 3])
        lo, hi = c.lo + min(a_, w), c.hi - min(b_, w)
        if self.chance(40):
            # a small window inside a (possibly huge) parent range
            hi = min(c.hi, lo + self.pick([0, 1, 7, 254, 255, 256, 65535, 65536]))
        if lo > hi:
            lo, hi = c.lo, c.lo
        n = Rng(lo, hi)
        if P.ext_constraints and self.chance(40) and not P.require_bounded:
            n.ext = True
        return n

    def lookup_avail(self, modname, name):
        for m in self.modules:
            if m.name == modname:
                return m.type_map().get(name)
        return None

    def anytype(self, mod, depth, self_name=None):
        P = self.p
        r = self.d(st.integers(0, 99))
        if P.refs and self.avail and r < 30:
            t = self.ref(mod)
            if t is not None:
                return t
        if depth < P.max_depth and r < 62 and P.constructed:
            return self.constructed(mod, depth, self_name)
        return self.prim(mod, depth)

    def member_names(self, n):
        # biased towards a few names so that different containers share member names (the
        # compiled-type cache of the library is keyed by member name + referenced type)
        pool = MEMBER_NAMES[:5] * 5 + MEMBER_NAMES
        names = self.d(st.lists(st.sampled_from(pool), min_size=n, max_size=n,
                                unique_by=(lambda s: s.lower().replace('-', '_'))
                                if self.p.unique_member_names_ci else (lambda s: s)))
        return names

    def constructed(self, mod, depth, self_name=None):
        P = self.p
        k = self.pick(P.constructed)
        t = Ty(k)
        if k in ('SEQUENCE OF', 'SET OF'):
            t.elem = self.anytype(mod, depth + 1, None)
            if P.elem_names and self.chance(20):
                t.elem_name = self.pick(MEMBER_NAMES)
            if (P.constraints and self.chance(45)) or P.require_bounded:
                t.size = self.size_range(mod, maxb=min(6, P.max_size_bound))
            return t
        lo = 0 if (P.empty_containers and k != 'CHOICE') else 1
        n = self.d(st.integers(lo, P.max_members))
        has_ext = P.ext and self.chance(P.ext_rate)
        n_add = self.d(st.integers(0, 3)) if has_ext else 0
        wide = has_ext and k != 'CHOICE' and P.wide_additions and self.chance(12)
        if wide:
            # presence-bitmap boundaries: 7, 8, 9, 16, 17 additions of simple types
            n_add = self.pick([7, 8, 9, 16, 17])
            if P.very_wide_additions and self.chance(25):
                # X.691 11.9 normally-small length: 64 is the last count written in the short form
                n_add = self.pick([63, 64, 65])
            n = min(n, 2)
        n_root2 = 0
        if has_ext and P.root2 and k != 'CHOICE' and mod.tagdefault != 'AUTOMATIC' and self.chance(25):
            n_root2 = self.d(st.integers(0, 2))
            has_root2 = True
        else:
            has_root2 = False
        total = n + (n_add if wide else n_add * 2) + n_root2
        names = self.member_names(min(total, len(MEMBER_NAMES)))
        if wide and n_add > 17:
            names = names[:n] + ['m%d' % i for i in range(n_add + n_root2)]
        it = iter(names)

        def mk(in_choice, force_opt=False, mandatory_ok=True):
            nm = next(it)
            ty = self.anytype(mod, depth + 1, None)
            m = Member(nm, ty)
            if not in_choice:
                r = self.d(st.integers(0, 99))
                via_ref = (ty.kind == 'REF')
                if P.optionals and r < (20 if via_ref else 30):
                    m.optional = True
                elif P.defaults and r < (70 if via_ref else 50):
                    # defaults on members whose type is a reference are converted by different
                    # code in the library than defaults on inline types: keep them frequent
                    self.try_default(m, mod)
            return m

        in_choice = (k == 'CHOICE')
        t.root = [mk(in_choice) for _ in range(n)]
        if has_ext:
            t.ext = []
            for _ in range(n_add):
                try:
                    if wide:
                        nm = next(it)
                        kk = self.pick([q for q in ('BOOLEAN', 'NULL', 'INTEGER') if q in P.kinds] or
                                       [P.kinds[0]])
                        m = Member(nm, Ty(kk) if kk in ('BOOLEAN', 'NULL', 'INTEGER') else self.prim(mod, depth + 1))
                        if kk == 'INTEGER' and P.require_bounded:
                            m.ty.rng = Rng(0, 255)
                        if self.chance(70):
                            m.optional = True
                        t.ext.append(m)
                        continue
                    if P.groups and self.chance(30):
                        gm = [mk(in_choice) for _ in range(self.d(st.integers(1, 2)))]
                        t.ext.append(Group(gm))
                    else:
                        t.ext.append(mk(in_choice))
                except StopIteration:
                    break
            if has_root2:
                t.root2 = []
                for _ in range(n_root2):
                    try:
                        t.root2.append(mk(False))
                    except StopIteration:
                        break
        if self_name and P.recursion and self.chance(12):
            # recursion with a finite escape: OPTIONAL member / OF / extra alternative
            nm = 'rec'
            if nm not in [m.name for m in t.all_members()]:
                if in_choice:
                    if t.root:      # keep >=1 non-recursive alternative
                        t.root.append(Member(nm, Ty('REF', ref=self_name)))
                elif self.chance(50):
                    t.root.append(Member(nm, Ty('REF', ref=self_name), optional=True))
                else:
                    t.root.append(Member(nm, Ty('SEQUENCE OF', elem=Ty('REF', ref=self_name))))
        return t

    # ---- defaults
    def try_default(self, m, mod):
        """Give member a DEFAULT if its (resolved) type is one we can write a value for."""
        t = m.ty
        spec_types = {}
        base, rng, size, alpha = self.peek(t, mod)
        if base is None:
            return
        k = base.kind
        if self.p.default_kinds is not None and k not in self.p.default_kinds:
            return
        through_ref = (t.kind == 'REF')
        if k == 'BOOLEAN':
            v = self.chance(50)
        elif k == 'INTEGER':
            r = rng
            if r is None:
                v = self.pick([0, 1, -1, 5, 127, 128, -129, 65536])
            else:
                lo = r.lo if r.lo is not None else (r.hi if r.hi is not None else 0) - 10
                hi = r.hi if r.hi is not None else lo + 10
                v = self.pick([lo, hi, (lo + hi) // 2])
        elif k == 'ENUMERATED':
            nm = self.pick([e[0] for e in base.enum_root])
            m.has_default, m.default, m.default_txt = True, nm, nm
            return
        elif k == 'OCTET STRING':
            n = self.fit_len(size, self.d(st.integers(0, 4)))
            if n is None:
                return
            v = self.d(st.binary(min_size=n, max_size=n))
        elif k == 'BIT STRING':
            if base.named_bits and self.chance(60):
                names = [nb[0] for nb in base.named_bits]
                chosen = [x for x in names if self.chance(50)]
                nbits = max([dict(base.named_bits)[c] for c in chosen] + [-1]) + 1
                if size is not None and not size.ext:
                    if (size.lo is not None and nbits < size.lo and size.lo == size.hi):
                        nbits = size.lo
                    if not size.contains_root(nbits):
                        return
                val = 0
                data = bytearray((nbits + 7) // 8)
                for c in chosen:
                    p = dict(base.named_bits)[c]
                    data[p // 8] |= 0x80 >> (p % 8)
                m.has_default = True
                m.default = (bytes(data), nbits)
                m.default_txt = '{ %s }' % ', '.join(chosen) if chosen else '{ }'
                if not chosen:
                    m.has_default = False
                    m.default = None
                    m.default_txt = None
                return
            n = self.fit_len(size, self.d(st.integers(0, 12)))
            if n is None:
                return
            bits = self.d(st.lists(st.integers(0, 1), min_size=n, max_size=n))
            data = bytearray((n + 7) // 8)
            for i, b in enumerate(bits):
                if b:
                    data[i // 8] |= 0x80 >> (i % 8)
            m.has_default = True
            m.default = (bytes(data), n)
            if n % 4 == 0 and n > 0 and self.chance(50):
                m.default_txt = "'%s'H" % bytes(data).hex().upper()[:n // 4]
            else:
                m.default_txt = "'%s'B" % ''.join(str(b) for b in bits)
            return
        elif k in asn.STRING_KINDS:
            chars = alpha.chars() if alpha is not None else 'abcXYZ019 '
            if k == 'NumericString' and alpha is None:
                chars = '0123456789 '
            n = self.fit_len(size, self.d(st.integers(0, 4)))
            if n is None:
                return
            v = ''.join(self.pick(chars) for _ in range(n))
        elif k == 'REAL' and self.p.real_defaults:
            v = self.pick([0, 1, -1, 1.5, 0.1, -2.5E3, 1.0E10])
            m.has_default, m.default = True, float(v)
            m.default_txt = repr(v).replace('e+', 'E').replace('e', 'E')
            return
        else:
            return
        m.has_default, m.default = True, v

    def fit_len(self, size, n):
        if size is None or size.ext:
            if size is not None and not size.contains_root(n):
                lo = size.lo or 0
                return lo if lo <= 64 else None
            return n
        lo = size.lo or 0
        hi = size.hi
        if n < lo:
            n = lo
        if hi is not None and n > hi:
            n = hi
        return n if n <= 64 else None

    def peek(self, t, mod):
        """Resolve through already generated types: (base, rng, size, alpha)."""
        rng = size = alpha = None
        modname = mod.name
        hops = 0
        while True:
            rng = rng or t.rng
            size = size or t.size
            alpha = alpha or t.alpha
            if t.kind != 'REF':
                return t, rng, size, alpha
            nxt = None
            for m in self.modules:
                if m.name == modname:
                    nxt = m.type_map().get(t.ref)
                    if nxt is None:
                        for frm, syms in m.imports.items():
                            if t.ref in syms:
                                nxt = self.lookup_avail(frm, t.ref)
                                modname = frm
            if nxt is None:
                return None, None, None, None   # self reference (recursive)
            t = nxt
            hops += 1
            if hops > 32:
                return None, None, None, None

    # ---- tags
    def fix_tags(self, spec, t, mod):
        """Make every SEQUENCE/SET/CHOICE below t legal w.r.t. distinct tags."""
        for node in reversed(list(t.walk())):
            if node.kind in ('SEQUENCE', 'SET', 'CHOICE'):
                self.fix_container(spec, node, mod)
            elif node.kind in ('SEQUENCE OF', 'SET OF'):
                if self.p.tags and self.chance(8):
                    node.elem.tag = self.rand_tag(spec, node.elem, mod, set())

    def rand_tag(self, spec, ty, mod, used, cls=None):
        P = self.p
        cls = cls or (self.pick(P.tag_classes) if self.chance(25) else 'CONTEXT')
        while True:
            if P.big_tags and self.chance(12):
                num = self.pick([30, 31, 32, 127, 128, 129, 255, 256, 16383, 16384, 2 ** 21])
            else:
                num = self.d(st.integers(0, 12))
            if (cls, num) not in used:
                break
        is_choice = (asn.base_kind(spec, ty, mod.name) == 'CHOICE') and not self.has_inner_tag(spec, ty, mod)
        modes = [None, None, 'EXPLICIT'] if is_choice else [None, None, 'IMPLICIT', 'EXPLICIT']
        return Tag(cls, num, self.pick(modes))

    def has_inner_tag(self, spec, ty, mod):
        r = asn.resolve(spec, ty, mod.name)
        return len(r.tags) > 0

    def legal(self, spec, node, mod):
        spec.link()
        ms = node.all_members()
        sets = []
        for m in ms:
            sets.append(asn.outer_tag_set(spec, m.ty, mod.name))
        n = len(ms)
        extensible = node.ext is not None or mod.ext_implied
        if node.kind in ('SET', 'CHOICE'):
            seen = {asn.EXT_TAG} if extensible else set()
            for s in sets:
                if s & seen:
                    return False
                seen |= s
            return True
        add_ids = set()
        for a in (node.ext or []):
            for m in (a.members if isinstance(a, Group) else [a]):
                add_ids.add(id(m))
        ext_impl = mod.ext_implied and node.ext is None
        skippable = [(m.optional or m.has_default or id(m) in add_ids) for m in ms]
        if extensible:
            # the extension insertion point is a conceptual optional element (X.680 52.7)
            pos = len(node.root or []) + len(add_ids) if node.ext is not None else n
            sets.insert(pos, {asn.EXT_TAG})
            skippable.insert(pos, True)
            n += 1
        for i in range(n):
            for j in range(i + 1, n):
                if all(skippable[i:j]):
                    if sets[i] & sets[j]:
                        return False
                else:
                    break
        return True

    def fix_container(self, spec, node, mod):
        P = self.p
        ms = node.all_members()
        if not ms:
            return
        auto = (mod.tagdefault == 'AUTOMATIC')
        if auto and (not P.tags or self.chance(75)):
            for m in ms:
                m.ty.tag = None
            return      # automatic tagging applies: always legal
        if P.tags and self.chance(85 if node.kind == 'SET' else 30):
            self.tag_all(spec, node, mod)
            return
        if P.tags:
            for m in ms:
                if self.chance(15):
                    m.ty.tag = self.rand_tag(spec, m.ty, mod, set())
        if auto and not any(m.ty.tag is not None for m in ms):
            return
        if not self.legal(spec, node, mod):
            self.tag_all(spec, node, mod)

    def tag_all(self, spec, node, mod):
        used = set()
        for m in node.all_members():
            m.ty.tag = None
            tag = self.rand_tag(spec, m.ty, mod, used, cls='CONTEXT' if self.chance(85) else None)
            used.add((tag.cls, tag.num))
            m.ty.tag = tag
        if node.kind == 'CHOICE' and self.chance(self.p.choice_tags_ascending_rate):
            # alternatives written in canonical tag order (the common style)
            order = {'UNIVERSAL': 0, 'APPLICATION': 1, 'CONTEXT': 2, 'PRIVATE': 3}
            ms = list(node.root or [])
            keys = sorted((order[m.ty.tag.cls], m.ty.tag.num) for m in ms)
            inv = {v: k for k, v in order.items()}
            for m, (c, n) in zip(ms, keys):
                m.ty.tag = Tag(inv[c], n, m.ty.tag.mode)
        # nested untagged CHOICE members are now tagged themselves: legal.

    # ---- spec
    def spec(self):
        P = self.p
        nm = self.d(st.integers(1, P.max_modules))
        mnames = MODULE_NAMES[:nm]
        same = P.same_defaults_rate and self.chance(P.same_defaults_rate)
        for n in mnames:
            mod = Module(n, self.pick(P.tagdefaults),
                         P.ext_implied and self.chance(12))
            if same and self.modules:
                mod.tagdefault, mod.ext_implied = self.modules[0].tagdefault, self.modules[0].ext_implied
            self.modules.append(mod)
        nt = self.d(st.integers(P.min_types, P.max_types))
        tnames = self.d(st.lists(st.sampled_from(TYPE_NAMES), min_size=nt, max_size=nt, unique=True))
        for name in tnames:
            mod = self.pick(self.modules)
            r = self.d(st.integers(0, 99))
            if r < 65 and P.constructed:
                t = self.constructed(mod, 0, self_name=name)
            elif r < 85:
                t = self.prim(mod, 0)       # named primitive types: targets for references
            else:
                t = self.anytype(mod, 0, self_name=name)
            if t.kind == 'REF' and t.ref == name:
                t = self.prim(mod, 0)
            mod.types.append((name, t))
            spec = Spec(self.modules)
            if mod.ext_implied:
                self.ext_implied_fixup(t)
            self.fix_tags(spec, t, mod)
            if P.tags and P.top_tags and self.chance(12) and t.kind != 'REF':
                t.tag = self.rand_tag(spec, t, mod, set())
            self.avail.append((mod.name, name, asn.base_kind(spec, t, mod.name)))
        if P.defaults and P.refs and P.via_ref_floor and self.chance(P.via_ref_floor_rate):
            self.defaults_via_ref(self.pick(self.modules), set(tnames))
        if P.components_of_rate and self.chance(P.components_of_rate):
            self.components_of()
        if P.refs and P.alias_chain_rate and self.chance(P.alias_chain_rate):
            self.alias_chain()
        if P.refs and P.dup_names_rate and P.max_modules >= 2 and self.chance(P.dup_names_rate):
            self.dup_type_names()
        if len(self.modules) > 1 and self.chance(50):
            # the order of the modules in the text is not the alphabetical order of their names
            self.modules.reverse()
        return Spec(self.modules)

    def dup_type_names(self):
        """Stratification floor: two modules each define their own, different 'Id' (and 'Level') and each refers to
        its own one from a like-named component of a container ('UdA' / 'UdB'): a name is resolved in the module
        where it is written."""
        allnames = {n for m in self.modules for n, _ in m.types}
        if allnames & {'Id', 'Level', 'UdA', 'UdB'}:
            return
        if len(self.modules) == 1:
            self.modules.append(Module(MODULE_NAMES[1], self.modules[0].tagdefault if self.chance(60) else
                                       self.pick(self.p.tagdefaults), False))
        ma, mb = self.modules[0], self.modules[1]
        saved = self.p.kinds
        try:
            for tname in ('Id', 'Level'):
                kinds = [k for k in ('INTEGER', 'IA5String', 'BOOLEAN', 'OCTET STRING', 'ENUMERATED', 'BIT STRING')
                         if k in saved]
                if len(kinds) < 2:
                    return
                ka = self.pick(kinds)
                kb = self.pick([k for k in kinds if k != ka])
                for mod, k in ((ma, ka), (mb, kb)):
                    self.p.kinds = [k]
                    mod.types.append((tname, self.prim(mod, 0)))
        finally:
            self.p.kinds = saved
        names = self.member_names(2)
        for mod, cname in ((ma, 'UdA'), (mb, 'UdB')):
            members = [Member(names[0], Ty('REF', ref='Id')), Member(names[1], Ty('REF', ref='Level'))]
            if self.chance(30):
                members[1].optional = True
            t = Ty(self.pick(['SEQUENCE', 'SEQUENCE', 'CHOICE']) if 'CHOICE' in self.p.constructed else 'SEQUENCE',
                   root=members)
            if t.kind == 'CHOICE':
                members[1].optional = False
            mod.types.append((cname, t))
            spec = Spec(self.modules)
            spec.link()
            if self.chance(50):
                if mod.tagdefault != 'AUTOMATIC' and not self.legal(spec, t, mod):
                    self.tag_all(spec, t, mod)
            else:
                self.fix_tags(spec, t, mod)
            self.avail.append((mod.name, cname, t.kind))

    def alias_chain(self):
        """Stratification floor: a chain of plain aliases 'Ch1 ::= X', 'Ch2 ::= Ch1' ending in an existing type and a
        container, preferably in another module that imports only the last alias, whose (often tagged) member refers
        to it: whether a tag is implicit or explicit, and every constraint and default, must be found through the
        whole chain and across the module boundary."""
        allnames = {n for m in self.modules for n, _ in m.types}
        if not self.avail or allnames & {'Ch1', 'Ch2', 'Use1'}:
            return
        # a CHOICE at the end of the chain decides whether tags along the way are explicit: prefer it
        choices = [a for a in self.avail if a[2] == 'CHOICE']
        if not choices and 'CHOICE' in self.p.constructed and 'ChC' not in allnames and self.chance(50):
            m0 = self.pick(self.modules)
            c = Ty('CHOICE', root=[Member('i', Ty('INTEGER')), Member('b', Ty('BOOLEAN'))])
            if self.p.ext and self.chance(30):
                c.ext = []
            m0.types.append(('ChC', c))
            self.fix_tags(Spec(self.modules), c, m0)
            self.avail.append((m0.name, 'ChC', 'CHOICE'))
            choices = [self.avail[-1]]
        m1name, x, kind = self.pick(choices if choices and self.chance(50) else self.avail)
        m1 = [m for m in self.modules if m.name == m1name][0]
        if len(self.modules) == 1 and self.p.max_modules >= 2 and self.chance(60):
            # a module of its own for the user of the alias
            self.modules.append(Module(MODULE_NAMES[1], m1.tagdefault if self.chance(60) else
                                       self.pick(self.p.tagdefaults), False))
        m1.types.append(('Ch1', Ty('REF', ref=x)))
        last, lastmod = 'Ch1', m1
        others = [o for o in self.modules if o is not m1]
        if self.chance(50):
            m2 = self.pick(others) if others and self.chance(50) else m1
            if m2 is not m1:
                m2.imports.setdefault(m1.name, []).append('Ch1')
            m2.types.append(('Ch2', Ty('REF', ref='Ch1')))
            last, lastmod = 'Ch2', m2
        others = [o for o in self.modules if o is not lastmod]
        user = self.pick(others) if others and self.chance(70) else lastmod
        if user is not lastmod:
            if any(last in syms for syms in user.imports.values()) or last in user.type_map():
                return
            user.imports.setdefault(lastmod.name, []).append(last)
        spec = Spec(self.modules)
        spec.link()
        ck = self.pick(['SEQUENCE', 'SEQUENCE', 'SET', 'CHOICE'] if 'SET' in self.p.constructed else ['SEQUENCE'])
        p = Member('p', Ty('REF', ref=last))
        if ck != 'CHOICE' and self.chance(30):
            p.optional = True
        t = Ty(ck, root=[p, Member('q', Ty('BOOLEAN'))])
        user.types.append(('Use1', t))
        spec = Spec(self.modules)
        spec.link()
        self.fix_tags(spec, t, user)
        if self.p.tags and p.ty.tag is None and user.tagdefault != 'AUTOMATIC' and self.chance(60):
            p.ty.tag = self.rand_tag(spec, p.ty, user, {('CONTEXT', q.ty.tag.num) for q in t.root
                                                        if q.ty.tag is not None and q.ty.tag.cls == 'CONTEXT'})
            if not self.legal(spec, t, user):
                self.tag_all(spec, t, user)
        for nm, mod in (('Ch1', m1), (last, lastmod), ('Use1', user)):
            if (mod.name, nm, kind) not in self.avail:
                self.avail.append((mod.name, nm, kind if nm != 'Use1' else ck))

    def components_of(self):
        """CO ::= SEQUENCE|SET { [co-first T,] COMPONENTS OF X, extra-co BOOLEAN } for a top-level SEQUENCE/SET X, in
        X's module or (when X's components are self-contained) in another module that imports X.  The AST of CO
        holds copies of X's root components (the value space and the reference models use those); the text is
        printed from `raw`.  Only X whose root components carry no hand-written tags are used: X.680 25.7 decides
        automatic tagging on the list as written, before the expansion, and the library decides after it."""
        import copy
        spec = Spec(self.modules)
        spec.link()
        cands = []
        for m in self.modules:
            for n, t in m.types:
                if (t.kind in ('SEQUENCE', 'SET') and t.tag is None and t.raw is None and t.root
                        and not t.root2
                        and (all(x.ty.tag is None for x in t.root) or
                             (self.p.components_of_tagged and all(mm.tagdefault != 'AUTOMATIC' for mm in self.modules)))
                        and 'extra-co' not in [x.name for x in t.root]
                        and 'co-first' not in [x.name for x in t.root]):
                    cands.append((m, n, t))
        allnames = {n for m in self.modules for n, _ in m.types}
        if not cands or 'CO' in allnames:
            return
        m, n, t = self.pick(cands)
        target = m
        self_contained = all(x.kind != 'REF' and not (x.rng is not None and (x.rng.lo_txt or x.rng.hi_txt))
                             and not (x.size is not None and (x.size.lo_txt or x.size.hi_txt))
                             for mem in t.root for x in mem.ty.walk())
        others = [o for o in self.modules if o is not m]
        if others and self_contained and self.chance(60):
            target = self.pick(others)
            if n in target.type_map() or any(n in syms for frm, syms in target.imports.items() if frm != m.name):
                target = m
        members = [copy.deepcopy(x) for x in t.root]
        first = self.chance(40)
        if first:
            members.insert(0, Member('co-first', Ty(self.pick(['INTEGER', 'BOOLEAN', 'OCTET STRING'])
                                                    if 'OCTET STRING' in self.p.kinds else 'BOOLEAN')))
        members.append(Member('extra-co', Ty('BOOLEAN')))
        ty = Ty(t.kind, root=members)
        lines = (['  co-first %s,' % asn.print_type(members[0].ty)] if first else []) + \
            ['  COMPONENTS OF %s,' % n, '  extra-co BOOLEAN']
        ty.raw = '%s {\n%s\n}' % (t.kind, '\n'.join(lines))
        ty.raw_refs = [n]
        target.types.append(('CO', ty))
        added_import = False
        if target is not m and n not in target.imports.get(m.name, []):
            target.imports.setdefault(m.name, []).append(n)
            added_import = True
        spec = Spec(self.modules)
        spec.link()
        if target.tagdefault != 'AUTOMATIC' and not self.legal(spec, ty, target):
            # the written list would need tags to be legal: leave it out
            target.types.pop()
            if added_import:
                target.imports[m.name].remove(n)
                if not target.imports[m.name]:
                    del target.imports[m.name]
            return
        self.avail.append((target.name, 'CO', t.kind))

    def defaults_via_ref(self, mod, tnames):
        """Stratification floor: named primitive types and two containers whose members
        share names and referenced types but differ in DEFAULT / OPTIONAL."""
        P = self.p
        kinds = [k for k in ('BOOLEAN', 'INTEGER', 'ENUMERATED', 'BIT STRING', 'OCTET STRING', 'IA5String',
                             'NumericString', 'UTF8String', 'PrintableString') if k in P.kinds]
        if not kinds:
            return
        n = self.d(st.integers(1, min(4, len(kinds))))
        chosen = self.d(st.lists(st.sampled_from(kinds), min_size=n, max_size=n, unique=True))
        aliases = []
        for i, k in enumerate(chosen):
            nm = 'Al%d' % (i + 1)
            if nm in tnames:
                continue
            saved = P.kinds
            P.kinds = [k]
            try:
                t = self.prim(mod, 0)
            finally:
                P.kinds = saved
            mod.types.append((nm, t))
            self.avail.append((mod.name, nm, k))
            aliases.append(nm)
        if not aliases:
            return
        names = self.member_names(len(aliases))
        # per member, what differs between its two occurrences: exactly one thing (a constraint at the reference, a
        # DEFAULT, OPTIONAL) with the other occurrence plain, or anything
        roles = [self.pick(['constraint', 'constraint', 'default', 'optional', 'any', 'any']) for _ in aliases]
        if 'CHOICE' in P.constructed and 'Dc' not in tnames and self.chance(50):
            # the same names and referenced types once more as alternatives of a CHOICE (whose encodings carry the
            # alternative's own tag), usually with tags of their own
            t = Ty('CHOICE', root=[Member(nm, Ty('REF', ref=al)) for nm, al in zip(names, aliases)])
            mod.types.append(('Dc', t))
            spec = Spec(self.modules)
            spec.link()
            if P.tags and self.chance(60):
                self.tag_all(spec, t, mod)
            elif mod.tagdefault != 'AUTOMATIC' and not self.legal(spec, t, mod):
                self.tag_all(spec, t, mod)
            self.avail.append((mod.name, 'Dc', 'CHOICE'))
        for cname in ('Dv', 'Dw'):
            if cname in tnames:
                continue
            members = []
            for nm, al, role in zip(names, aliases, roles):
                m = Member(nm, Ty('REF', ref=al))
                target = self.lookup_avail(mod.name, al)
                if role != 'any':
                    if cname == 'Dw':
                        if role == 'constraint' and P.ref_constraints and P.constraints and target is not None:
                            if target.kind == 'INTEGER' and target.rng is not None and P.stack_rate:
                                m.ty.rng = self.narrow(target.rng)
                            elif (target.kind in ('OCTET STRING', 'IA5String', 'UTF8String') and target.size is not None
                                  and target.alpha is None and P.stack_rate):
                                m.ty.size = self.narrow(target.size)
                            elif target.kind == 'INTEGER' and target.rng is None:
                                m.ty.rng = self.int_range(mod)
                            elif (target.size is None and target.alpha is None and not target.named_bits and
                                  target.kind in ('OCTET STRING', 'BIT STRING', 'IA5String', 'UTF8String',
                                                  'NumericString', 'PrintableString')):
                                m.ty.size = self.size_range(mod, maxb=12)
                        elif role == 'default' and P.defaults:
                            self.try_default(m, mod)
                        elif role == 'optional' and P.optionals:
                            m.optional = True
                    members.append(m)
                    continue
                if (cname == 'Dw' and P.ref_constraints and P.constraints and target is not None
                        and self.chance(60)):
                    # a constraint written at the reference in one container only
                    if target.kind == 'INTEGER' and target.rng is None:
                        m.ty.rng = self.int_range(mod)
                    elif (target.size is None and target.alpha is None and not target.named_bits and
                          target.kind in ('OCTET STRING', 'BIT STRING', 'IA5String', 'UTF8String',
                                          'NumericString', 'PrintableString')):
                        m.ty.size = self.size_range(mod, maxb=12)
                r = self.d(st.integers(0, 99))
                constrained_here = m.ty.rng is not None or m.ty.size is not None
                if r < (25 if constrained_here else 45) and P.defaults:
                    self.try_default(m, mod)
                elif r < (40 if constrained_here else 60) and P.optionals:
                    m.optional = True
                members.append(m)
            t = Ty(self.pick(['SEQUENCE', 'SEQUENCE', 'SET']) if 'SET' in P.constructed else 'SEQUENCE',
                   root=members)
            mod.types.append((cname, t))
            spec = Spec(self.modules)
            if self.chance(60):
                # no hand-written tags (the members' types differ): the library shares compiled member types
                # between untagged like-named members, tagged ones are copies
                spec.link()
                if mod.tagdefault != 'AUTOMATIC' and not self.legal(spec, t, mod):
                    self.tag_all(spec, t, mod)
            else:
                self.fix_tags(spec, t, mod)
            self.avail.append((mod.name, cname, t.kind))

    def ext_implied_fixup(self, t):
        """asn1tools applies EXTENSIBILITY IMPLIED only to member-lists it reaches
        through members; keep the meaning unambiguous by writing the marker
        explicitly wherever X.680 would imply one below an OF."""
        def rec(n, under_of):
            if n.kind in ('SEQUENCE', 'SET', 'CHOICE'):
                if under_of and n.ext is None:
                    n.ext = []
                for m in n.all_members():
                    rec(m.ty, under_of)
            elif n.kind in ('SEQUENCE OF', 'SET OF'):
                rec(n.elem, True)
        rec(t, False)


@st.composite
def specs(draw, prof=None):
    g = _G(draw, prof or Profile())
    return g.spec()


def is_ext(spec, node, modname):
    """Is this SEQUENCE/SET/CHOICE extensible (own marker or EXTENSIBILITY IMPLIED)?"""
    if node.ext is not None:
        return True
    return spec.by_name[modname].ext_implied
