"""Lossless JSON for values and for the AST (replay files, samples, hashing)."""
import datetime
import hashlib
import json
import struct

from . import asn


def enc(v):
    if v is None or isinstance(v, (bool, str)):
        return v
    if isinstance(v, int):
        if -2 ** 53 < v < 2 ** 53:
            return v
        return {'$i': str(v)}
    if isinstance(v, float):
        return {'$f': struct.pack('>d', v).hex(), 'repr': repr(v)}
    if isinstance(v, (bytes, bytearray)):
        return {'$b': bytes(v).hex()}
    if isinstance(v, tuple):
        return {'$t': [enc(x) for x in v]}
    if isinstance(v, list):
        return [enc(x) for x in v]
    if isinstance(v, dict):
        if all(isinstance(k, str) and not k.startswith('$') for k in v):
            return {k: enc(x) for k, x in v.items()}
        return {'$m': [[enc(k), enc(x)] for k, x in v.items()]}
    if isinstance(v, datetime.datetime):
        off = None
        if v.tzinfo is not None:
            off = int(v.utcoffset().total_seconds())
        return {'$dt': [v.year, v.month, v.day, v.hour, v.minute, v.second, v.microsecond, off]}
    if isinstance(v, datetime.date):
        return {'$d': [v.year, v.month, v.day]}
    if isinstance(v, datetime.time):
        return {'$tm': [v.hour, v.minute, v.second, v.microsecond]}
    return {'$repr': repr(v)}


def dec(j):
    if isinstance(j, list):
        return [dec(x) for x in j]
    if isinstance(j, dict):
        if '$i' in j:
            return int(j['$i'])
        if '$f' in j:
            return struct.unpack('>d', bytes.fromhex(j['$f']))[0]
        if '$b' in j:
            return bytes.fromhex(j['$b'])
        if '$t' in j:
            return tuple(dec(x) for x in j['$t'])
        if '$m' in j:
            return {dec(k): dec(x) for k, x in j['$m']}
        if '$dt' in j:
            y, mo, d, h, mi, s, us, off = j['$dt']
            tz = None if off is None else datetime.timezone(datetime.timedelta(seconds=off))
            return datetime.datetime(y, mo, d, h, mi, s, us, tzinfo=tz)
        if '$d' in j:
            return datetime.date(*j['$d'])
        if '$tm' in j:
            return datetime.time(*j['$tm'])
        if '$repr' in j:
            return j['$repr']
        return {k: dec(x) for k, x in j.items()}
    return j


_CLASSES = {'Ty': asn.Ty, 'Member': asn.Member, 'Group': asn.Group, 'Tag': asn.Tag,
            'Rng': asn.Rng, 'Alpha': asn.Alpha}


def ast_enc(o):
    for name, cls in _CLASSES.items():
        if type(o) is cls:
            d = {'$c': name}
            for s in cls.__slots__:
                if s in ('ref_mod', 'auto', 'uid'):
                    continue
                v = getattr(o, s)
                if v is None:
                    continue
                d[s] = ast_enc(v)
            return d
    if isinstance(o, (list, tuple)):
        return {'$l' if isinstance(o, list) else '$tu': [ast_enc(x) for x in o]}
    if isinstance(o, (bytes, bytearray)):
        return {'$b': bytes(o).hex()}
    if isinstance(o, float):
        return {'$f': struct.pack('>d', o).hex()}
    return o


def ast_dec(j):
    if isinstance(j, dict):
        if '$c' in j:
            cls = _CLASSES[j['$c']]
            kw = {k: ast_dec(v) for k, v in j.items() if k != '$c'}
            if cls is asn.Ty:
                return asn.Ty(kw.pop('kind'), **kw)
            if cls is asn.Member:
                return asn.Member(kw['name'], kw['ty'], kw.get('optional', False),
                                  kw.get('has_default', False), kw.get('default'),
                                  kw.get('default_txt'))
            if cls is asn.Group:
                return asn.Group(kw['members'])
            if cls is asn.Tag:
                return asn.Tag(kw['cls'], kw['num'], kw.get('mode'))
            if cls is asn.Rng:
                return asn.Rng(kw.get('lo'), kw.get('hi'), kw.get('ext', False),
                               kw.get('more', ()), kw.get('lo_txt'), kw.get('hi_txt'))
            if cls is asn.Alpha:
                return asn.Alpha(kw['items'], kw.get('ext', False))
        if '$l' in j:
            return [ast_dec(x) for x in j['$l']]
        if '$tu' in j:
            return tuple(ast_dec(x) for x in j['$tu'])
        if '$b' in j:
            return bytes.fromhex(j['$b'])
        if '$f' in j:
            return struct.unpack('>d', bytes.fromhex(j['$f']))[0]
    return j


def spec_enc(spec):
    return [{'name': m.name, 'tagdefault': m.tagdefault, 'ext_implied': m.ext_implied,
             'imports': m.imports, 'values': [list(v) for v in m.values],
             'types': [[n, ast_enc(t)] for n, t in m.types]} for m in spec.modules]


def spec_dec(j):
    mods = []
    for mj in j:
        m = asn.Module(mj['name'], mj['tagdefault'], mj['ext_implied'])
        m.imports = {k: list(v) for k, v in mj['imports'].items()}
        m.values = [tuple(v) for v in mj['values']]
        m.types = [(n, ast_dec(t)) for n, t in mj['types']]
        mods.append(m)
    return asn.Spec(mods)


def dumps(o):
    return json.dumps(o, sort_keys=True, ensure_ascii=True)


def h(*parts):
    m = hashlib.blake2b(digest_size=8)
    for p in parts:
        if not isinstance(p, (bytes, bytearray)):
            p = dumps(p).encode()
        m.update(p)
        m.update(b'\x00')
    return m.hexdigest()
