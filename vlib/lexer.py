"""Conservative ASN.1 lexer for C14: splits a specification text into lexical
items (comments removed) such that white-space/comments may be inserted between
any two consecutive items without changing the token sequence."""
import re

TOKEN_RE = re.compile(r'''
    (?P<cstring>"(?:[^"]|"")*")
  | (?P<bhstring>'[^']*'[BH])
  | (?P<assign>::=)
  | (?P<ellipsis>\.\.\.)
  | (?P<range>\.\.)
  | (?P<lbrk>\[\[)
  | (?P<rbrk>\]\])
  | (?P<number>-?\d+(?:\.\d+)?(?:[eE][-+]?\d+)?)
  | (?P<word>&?[A-Za-z](?:-?[A-Za-z0-9])*)
  | (?P<punct>[{}()\[\],;:|^<>@!&.=*~/+-])
''', re.X)


class LexError(Exception):
    pass


def lex(text):
    """-> list of token strings (comments and white-space dropped)."""
    out = []
    i, n = 0, len(text)
    while i < n:
        c = text[i]
        if c in ' \t\r\n\f\v\xa0':
            i += 1
            continue
        if text.startswith('--', i):
            j = i + 2
            while j < n and text[j] != '\n' and not text.startswith('--', j):
                j += 1
            i = j + 2 if text.startswith('--', j) else j
            continue
        if text.startswith('/*', i):
            depth, j = 1, i + 2
            while j < n and depth:
                if text.startswith('/*', j):
                    depth += 1
                    j += 2
                elif text.startswith('*/', j):
                    depth -= 1
                    j += 2
                else:
                    j += 1
            if depth:
                raise LexError('unterminated /* */')
            i = j
            continue
        m = TOKEN_RE.match(text, i)
        if not m:
            raise LexError('cannot lex at %d: %r' % (i, text[i:i + 20]))
        out.append(m.group(0))
        i = m.end()
    return out


def merge_atoms(tokens):
    """Keep sequences atomic where inserting white-space could change the lexical
    structure under a conservative reading ('[[' after '[', '-' before numbers, ...)."""
    return tokens
