"""Independent interpreter of the constraint forms the property names:
non-extensible single value / single range on INTEGER, SIZE on strings,
BIT/OCTET STRING and SEQUENCE/SET OF, permitted alphabet (FROM) on the
restricted character string types.  Driven by the AST, not by asn1tools."""
from .. import asn
from ..common import walk_values

SIZED = ('OCTET STRING', 'BIT STRING', 'SEQUENCE OF', 'SET OF') + tuple(asn.STRING_KINDS)


def node_violation(n):
    r, v = n.r, n.value
    k = r.base.kind
    if k == 'INTEGER' and r.rng is not None and not r.rng.ext and isinstance(v, int) and not isinstance(v, bool):
        if not r.rng.contains_root(v):
            return 'value %d outside %s' % (v, r.rng.inner())
    if k in SIZED and r.size is not None and not r.size.ext:
        if k == 'BIT STRING':
            n_ = v[1] if isinstance(v, tuple) and len(v) == 2 else None
        else:
            try:
                n_ = len(v)
            except TypeError:
                n_ = None
        if n_ is not None and not r.size.contains_root(n_):
            return 'size %d outside SIZE(%s)' % (n_, r.size.inner())
    if k in asn.STRING_KINDS and r.alpha is not None and isinstance(v, str):
        chars = r.alpha.chars()
        for c in v:
            if c not in chars:
                return 'character %r outside %s' % (c, r.alpha.text())
    return None


def violations(spec, ty, modname, value):
    out = []
    for n in walk_values(spec, ty, modname, value):
        why = node_violation(n)
        if why:
            out.append((n.path, why))
    return out
