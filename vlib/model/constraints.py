"""Independent interpreter of the constraint forms the property names:
non-extensible single value / single range on INTEGER, SIZE on strings,
BIT/OCTET STRING and SEQUENCE/SET OF, permitted alphabet (FROM) on the
restricted character string types.  Driven by the AST, not by asn1tools."""
from .. import asn
from ..common import walk_values

SIZED = ('OCTET STRING', 'BIT STRING', 'SEQUENCE OF', 'SET OF') + tuple(asn.STRING_KINDS)


def node_violation(n):
    r, v = n.r, n.value
    k = r.base.kind
    if k == 'INTEGER' and isinstance(v, int) and not isinstance(v, bool):
        # serial application: every non-extensible range written along the reference chain must hold
        for rng in r.rngs:
            if not rng.ext and not rng.contains_root(v):
                return 'value %d outside %s' % (v, rng.inner())
    for size in (r.sizes if k in SIZED else []):
        why = size_violation(r, k, v, size)
        if why:
            return why
    if k in asn.STRING_KINDS and r.alpha is not None and isinstance(v, str):
        chars = r.alpha.chars()
        for c in v:
            if c not in chars:
                return 'character %r outside %s' % (c, r.alpha.text())
    return None


def size_violation(r, k, v, size):
    if size is not None and not size.ext:
        if k == 'BIT STRING':
            n_ = v[1] if isinstance(v, tuple) and len(v) == 2 else None
            if n_ is not None and r.base.named_bits:
                # X.680 22.7: trailing 0 bits may be removed or added to satisfy the constraint
                data = bytes(v[0])
                while n_ > 0 and (n_ - 1) // 8 < len(data) and not (data[(n_ - 1) // 8] >> (7 - (n_ - 1) % 8)) & 1:
                    n_ -= 1
                n_ = max(n_, size.lo or 0)
        else:
            try:
                n_ = len(v)
            except TypeError:
                n_ = None
        if n_ is not None and not size.contains_root(n_):
            return 'size %d outside SIZE(%s)' % (n_, size.inner())
    return None


def violations(spec, ty, modname, value):
    out = []
    for n in walk_values(spec, ty, modname, value):
        why = node_violation(n)
        if why:
            out.append((n.path, why))
    return out
