"""Independent X.690 DER encoder over the AST (C03) producing an annotated TLV
tree (reused by C04).  Written from X.690 clauses 8, 10 and 11; shares no code
with asn1tools."""
import datetime
import math

from .. import asn
from .tlv import Node, serialize, tag_key


class ModelError(Exception):
    """value outside the model's domain (never a verdict on the library)"""


def int_octets(n):
    length = 1
    while not (-(1 << (8 * length - 1)) <= n < (1 << (8 * length - 1))):
        length += 1
    return n.to_bytes(length, 'big', signed=True)


def real_octets(x):
    x = float(x)
    if x != x:
        return b'\x42'
    if x == float('inf'):
        return b'\x40'
    if x == float('-inf'):
        return b'\x41'
    if x == 0.0:
        if math.copysign(1.0, x) < 0:
            return b'\x43'
        return b''
    sign = 0x40 if x < 0 else 0
    m, e = math.frexp(abs(x))
    M = int(m * (1 << 53))
    E = e - 53
    while M % 2 == 0:
        M //= 2
        E += 1
    mant = M.to_bytes((M.bit_length() + 7) // 8, 'big')
    exp = int_octets(E)
    if len(exp) == 1:
        first = 0x80 | sign | 0x00
        return bytes([first]) + exp + mant
    if len(exp) == 2:
        return bytes([0x80 | sign | 0x01]) + exp + mant
    if len(exp) == 3:
        return bytes([0x80 | sign | 0x02]) + exp + mant
    return bytes([0x80 | sign | 0x03, len(exp)]) + exp + mant


def oid_octets(s):
    arcs = [int(a) for a in s.split('.')]
    if len(arcs) < 2:
        raise ModelError('OID with one arc')
    subs = [40 * arcs[0] + arcs[1]] + arcs[2:]
    out = bytearray()
    for v in subs:
        chunk = [v & 0x7f]
        v >>= 7
        while v:
            chunk.append(0x80 | (v & 0x7f))
            v >>= 7
        out.extend(chunk[::-1])
    return bytes(out)


STRING_ENCODING = {'UTF8String': 'utf-8', 'NumericString': 'ascii', 'PrintableString': 'ascii',
                   'IA5String': 'ascii', 'VisibleString': 'ascii', 'BMPString': 'utf-16-be',
                   'UniversalString': 'utf-32-be',
                   # ISO 2022 based types: single-octet G0/G1 reading (assumption, stated in evidence)
                   'GeneralString': 'latin-1', 'GraphicString': 'latin-1', 'TeletexString': 'latin-1'}


def to_utc(dt):
    if dt.tzinfo is not None:
        dt = (dt - dt.utcoffset()).replace(tzinfo=None)
    return dt


def time_octets(kind, v):
    if kind == 'UTCTime':
        return to_utc(v).strftime('%y%m%d%H%M%S').encode() + b'Z'
    if kind == 'GeneralizedTime':
        d = to_utc(v)
        s = '%04d%02d%02d%02d%02d%02d' % (d.year, d.month, d.day, d.hour, d.minute, d.second)
        if d.microsecond:
            s += ('.%06d' % d.microsecond).rstrip('0')
        return s.encode() + b'Z'
    if kind == 'DATE':
        return ('%04d%02d%02d' % (v.year, v.month, v.day)).encode()
    if kind == 'TIME-OF-DAY':
        return ('%02d%02d%02d' % (v.hour, v.minute, v.second)).encode()
    if kind == 'DATE-TIME':
        return ('%04d%02d%02d%02d%02d%02d' % (v.year, v.month, v.day, v.hour, v.minute, v.second)).encode()
    raise ModelError(kind)


def bit_octets(v, named):
    data, n = v
    data = bytearray(data)[:(n + 7) // 8]
    if len(data) * 8 < n:
        raise ModelError('bit string shorter than its length')
    if n % 8:
        data[-1] &= (0xff << (8 - n % 8)) & 0xff
    if named:
        while n > 0 and not (data[(n - 1) // 8] >> (7 - (n - 1) % 8)) & 1:
            n -= 1
        data = data[:(n + 7) // 8]
    unused = (-n) % 8
    return bytes([unused]) + bytes(data)


class Encoder(object):
    def __init__(self, spec, numeric_enums=False, explicit_defaults=False):
        self.spec = spec
        self.ne = numeric_enums
        # BER (not DER) may encode a component that equals its DEFAULT: used by C04 to build valid BER variants
        self.explicit_defaults = explicit_defaults

    def encode_member(self, m, modname, v):
        layers, r = asn.member_tags(self.spec, m, modname)
        return self.wrap(layers, r, v)

    def encode_type(self, ty, modname, v):
        layers, r = asn.effective_tags(self.spec, ty, modname)
        return self.wrap(layers, r, v)

    def wrap(self, layers, r, v):
        node = self.base(r, v)
        for (cls, num, explicit) in reversed(layers):
            if explicit:
                node = Node(cls, num, True, children=[node], kind='explicit')
            else:
                node.cls, node.num = cls, num
        return node

    def default_equal(self, m, modname, v):
        from .. import aeq
        dv = aeq.default_value(self.spec, m, modname, aeq.EqCfg(numeric_enums=self.ne))
        return aeq.aeq(self.spec, m.ty, modname, dv, v, aeq.EqCfg(numeric_enums=self.ne)) is None

    def base(self, r, v):
        b = r.base
        k = b.kind
        U = asn.UNIVERSAL_TAG
        if k == 'BOOLEAN':
            return Node('UNIVERSAL', 1, False, b'\xff' if v else b'\x00', kind='boolean')
        if k == 'INTEGER':
            return Node('UNIVERSAL', 2, False, int_octets(v))
        if k == 'ENUMERATED':
            if not self.ne:
                d = {e[0]: e[1] for e in list(b.enum_root) + list(b.enum_ext or [])}
                v = d[v]
            return Node('UNIVERSAL', 10, False, int_octets(v))
        if k == 'REAL':
            return Node('UNIVERSAL', 9, False, real_octets(v), kind='real')
        if k == 'NULL':
            return Node('UNIVERSAL', 5, False, b'')
        if k == 'OBJECT IDENTIFIER':
            return Node('UNIVERSAL', 6, False, oid_octets(v))
        if k == 'OCTET STRING':
            return Node('UNIVERSAL', 4, False, bytes(v), kind='string')
        if k == 'BIT STRING':
            return Node('UNIVERSAL', 3, False, bit_octets(v, bool(b.named_bits)), kind='bitstring')
        if k in STRING_ENCODING:
            try:
                return Node('UNIVERSAL', U[k], False, v.encode(STRING_ENCODING[k]), kind='string')
            except UnicodeEncodeError:
                raise ModelError('character outside the encoding of ' + k)
        if k in asn.TIME_KINDS:
            return Node('UNIVERSAL', U[k], False, time_octets(k, v))
        if k in ('SEQUENCE', 'SET'):
            kids = []
            for m in b.all_members():
                if m.name not in v:
                    continue
                if m.has_default and not self.explicit_defaults and self.default_equal(m, r.mod, v[m.name]):
                    continue
                node = self.encode_member(m, r.mod, v[m.name])
                kids.append((m, node))
            if k == 'SET':
                def key(mn):
                    m, node = mn
                    tags = asn.member_outer_tag_set(self.spec, m, r.mod)
                    return min(tag_key(c, n) for c, n in tags)
                kids.sort(key=key)
            return Node('UNIVERSAL', U[k], True, children=[n for _, n in kids], kind='set' if k == 'SET' else 'seq')
        if k == 'CHOICE':
            for m in b.all_members():
                if m.name == v[0]:
                    return self.encode_member(m, r.mod, v[1])
            raise ModelError('unknown alternative')
        if k in ('SEQUENCE OF', 'SET OF'):
            kids = [self.encode_type(b.elem, r.mod, x) for x in v]
            if k == 'SET OF':
                kids.sort(key=lambda n: serialize(n))
            return Node('UNIVERSAL', U[k], True, children=kids, kind='setof' if k == 'SET OF' else 'seqof')
        raise ModelError(k)


def encode_tree(spec, ty, modname, v, numeric_enums=False, explicit_defaults=False):
    return Encoder(spec, numeric_enums, explicit_defaults).encode_type(ty, modname, v)


def encode(spec, ty, modname, v, numeric_enums=False):
    return serialize(encode_tree(spec, ty, modname, v, numeric_enums))
