"""Independent reader of GSER / ASN.1 value notation (RFC 3641, X.680 value
notation), type-directed over the AST.  Lenient about optional white-space
(the library prints 'a : 5'); strict about everything substantive."""
import datetime
import re

from .. import asn


class GserError(Exception):
    pass


WS = ' \t\r\n'
IDENT = re.compile(r'[a-zA-Z](?:-?[a-zA-Z0-9])*')
INT = re.compile(r'-?(?:0|[1-9][0-9]*)')
REAL = re.compile(r'-?(?:0|[1-9][0-9]*)(?:\.[0-9]*)?E(?:0|-?[1-9][0-9]*)')
OID = re.compile(r'(?:0|[1-9][0-9]*)(?:\.(?:0|[1-9][0-9]*))+')


class Reader(object):
    def __init__(self, spec, text, numeric_enums=False):
        self.spec = spec
        self.t = text
        self.i = 0
        self.ne = numeric_enums

    def ws(self):
        while self.i < len(self.t) and self.t[self.i] in WS:
            self.i += 1

    def lit(self, s):
        self.ws()
        if not self.t.startswith(s, self.i):
            raise GserError('expected %r at %d: %r' % (s, self.i, self.t[self.i:self.i + 30]))
        self.i += len(s)

    def peek(self, s):
        self.ws()
        return self.t.startswith(s, self.i)

    def rx(self, r, what):
        self.ws()
        m = r.match(self.t, self.i)
        if not m:
            raise GserError('expected %s at %d: %r' % (what, self.i, self.t[self.i:self.i + 30]))
        self.i = m.end()
        return m.group(0)

    def word_end(self):
        if self.i < len(self.t) and (self.t[self.i].isalnum() or self.t[self.i] == '-'):
            raise GserError('token runs on at %d: %r' % (self.i, self.t[self.i - 10:self.i + 10]))

    def cstring(self):
        self.ws()
        if not self.t.startswith('"', self.i):
            raise GserError('expected string at %d: %r' % (self.i, self.t[self.i:self.i + 30]))
        j = self.i + 1
        out = []
        while True:
            if j >= len(self.t):
                raise GserError('unterminated string')
            c = self.t[j]
            if c == '"':
                if self.t.startswith('""', j):
                    out.append('"')
                    j += 2
                    continue
                j += 1
                break
            out.append(c)
            j += 1
        self.i = j
        return ''.join(out)

    def value(self, ty, modname):
        r = asn.resolve(self.spec, ty, modname)
        b = r.base
        k = b.kind
        if k == 'BOOLEAN':
            w = self.rx(IDENT, 'TRUE/FALSE')
            if w not in ('TRUE', 'FALSE'):
                raise GserError('bad BOOLEAN %r' % w)
            return w == 'TRUE'
        if k == 'INTEGER':
            v = int(self.rx(INT, 'integer'))
            self.word_end()
            return v
        if k == 'REAL':
            self.ws()
            for name, val in (('PLUS-INFINITY', float('inf')), ('MINUS-INFINITY', float('-inf'))):
                if self.t.startswith(name, self.i):
                    self.i += len(name)
                    self.word_end()
                    return val
            m = REAL.match(self.t, self.i)
            if m:
                self.i = m.end()
                self.word_end()
                mant, exp = m.group(0).split('E')
                return float('%se%s' % (mant, exp))
            if self.t.startswith('0', self.i):
                self.i += 1
                self.word_end()
                return 0.0
            raise GserError('bad REAL at %d: %r' % (self.i, self.t[self.i:self.i + 30]))
        if k == 'NULL':
            self.lit('NULL')
            self.word_end()
            return None
        if k == 'ENUMERATED':
            w = self.rx(IDENT, 'enumeration identifier')
            for e in list(b.enum_root) + list(b.enum_ext or []):
                if e[0] == w:
                    return e[1] if self.ne else w
            raise GserError('unknown enumeration item %r' % w)
        if k in ('BIT STRING', 'OCTET STRING'):
            self.ws()
            m = re.compile(r"'([0-9A-F]*)'H|'([01]*)'B").match(self.t, self.i)
            if not m:
                raise GserError('expected bstring/hstring at %d: %r' % (self.i, self.t[self.i:self.i + 30]))
            self.i = m.end()
            if m.group(1) is not None:
                h = m.group(1)
                if k == 'OCTET STRING':
                    if len(h) % 2:
                        raise GserError('odd hstring for OCTET STRING')
                    return bytes.fromhex(h)
                nb = 4 * len(h)
                return (bytes.fromhex(h + ('0' if len(h) % 2 else '')), nb)
            bits = m.group(2)
            if k == 'OCTET STRING':
                if len(bits) % 8:
                    raise GserError('bstring not a multiple of 8 for OCTET STRING')
                return int(bits, 2).to_bytes(len(bits) // 8, 'big') if bits else b''
            nb = len(bits)
            padded = bits + '0' * (-nb % 8)
            return (int(padded, 2).to_bytes(len(padded) // 8, 'big') if padded else b'', nb)
        if k == 'OBJECT IDENTIFIER':
            return self.rx(OID, 'numeric object identifier')
        if k in asn.STRING_KINDS:
            return self.cstring()
        if k in asn.TIME_KINDS:
            return parse_time(k, self.cstring())
        if k in ('SEQUENCE', 'SET'):
            self.lit('{')
            out = {}
            members = {m.name: m for m in b.all_members()}
            order = [m.name for m in b.all_members()]
            last = -1
            if self.peek('}'):
                self.lit('}')
                return out
            while True:
                name = self.rx(IDENT, 'member identifier')
                if name not in members:
                    raise GserError('unknown member %r' % name)
                if name in out:
                    raise GserError('member %r twice' % name)
                if k == 'SEQUENCE' and order.index(name) <= last:
                    raise GserError('members out of order at %r' % name)
                last = order.index(name)
                if self.i >= len(self.t) or self.t[self.i] not in WS:
                    raise GserError('no space after member name %r' % name)
                out[name] = self.value(members[name].ty, r.mod)
                if self.peek(','):
                    self.lit(',')
                    continue
                self.lit('}')
                break
            for m in b.all_members():
                if m.name not in out and not m.optional and not m.has_default:
                    in_root = m in (b.root or []) or m in (b.root2 or [])
                    if in_root:
                        raise GserError('mandatory member %r missing' % m.name)
            return out
        if k == 'CHOICE':
            name = self.rx(IDENT, 'alternative identifier')
            self.lit(':')
            for m in b.all_members():
                if m.name == name:
                    return (name, self.value(m.ty, r.mod))
            raise GserError('unknown alternative %r' % name)
        if k in ('SEQUENCE OF', 'SET OF'):
            self.lit('{')
            out = []
            if self.peek('}'):
                self.lit('}')
                return out
            while True:
                out.append(self.value(b.elem, r.mod))
                if self.peek(','):
                    self.lit(',')
                    continue
                self.lit('}')
                break
            return out
        raise GserError('unsupported kind ' + k)


def parse_time(kind, s):
    def tz(rest):
        if rest == 'Z':
            return datetime.timezone.utc, True
        if rest == '':
            return None, True
        m = re.fullmatch(r'([+-])(\d\d)(\d\d)', rest)
        if not m:
            raise GserError('bad time zone %r' % rest)
        d = datetime.timedelta(hours=int(m.group(2)), minutes=int(m.group(3)))
        return datetime.timezone(d if m.group(1) == '+' else -d), True
    try:
        if kind == 'UTCTime':
            m = re.fullmatch(r'(\d\d)(\d\d)(\d\d)(\d\d)(\d\d)(\d\d)?(Z|[+-]\d{4})', s)
            if not m:
                raise GserError('bad UTCTime %r' % s)
            yy = int(m.group(1))
            year = 2000 + yy if yy < 69 else 1900 + yy
            z, _ = tz(m.group(7))
            dt = datetime.datetime(year, int(m.group(2)), int(m.group(3)), int(m.group(4)), int(m.group(5)),
                                   int(m.group(6) or 0))
            return ('utc', dt, m.group(7))
        if kind == 'GeneralizedTime':
            m = re.fullmatch(r'(\d{4})(\d\d)(\d\d)(\d\d)(\d\d)?(\d\d)?(?:[.,](\d+))?(Z|[+-]\d{4})?', s)
            if not m:
                raise GserError('bad GeneralizedTime %r' % s)
            us = int((m.group(7) or '0').ljust(6, '0')[:6]) if m.group(7) else 0
            dt = datetime.datetime(int(m.group(1)), int(m.group(2)), int(m.group(3)), int(m.group(4)),
                                   int(m.group(5) or 0), int(m.group(6) or 0), us)
            return ('gen', dt, m.group(8) or '')
        if kind == 'DATE':
            return datetime.date(*[int(x) for x in re.fullmatch(r'(\d{4})-(\d\d)-(\d\d)', s).groups()])
        if kind == 'TIME-OF-DAY':
            return datetime.time(*[int(x) for x in re.fullmatch(r'(\d\d):(\d\d):(\d\d)', s).groups()])
        if kind == 'DATE-TIME':
            g = re.fullmatch(r'(\d{4})-(\d\d)-(\d\d)T(\d\d):(\d\d):(\d\d)', s).groups()
            return datetime.datetime(*[int(x) for x in g])
    except (AttributeError, ValueError) as e:
        raise GserError('bad %s %r: %s' % (kind, s, e))
    raise GserError(kind)


def normalise_times(spec, ty, modname, v):
    """Map datetimes of UTCTime/GeneralizedTime in a *Python* value to the reader's
    ('utc'|'gen', naive datetime, zone text) form so both sides compare equal."""
    from ..common import map_values, NOVALUE

    def fn(idx, r, val):
        k = r.base.kind
        if k in ('UTCTime', 'GeneralizedTime') and isinstance(val, datetime.datetime):
            if val.tzinfo is None:
                zone = 'Z' if k == 'UTCTime' else ''
            else:
                off = val.utcoffset()
                if not off and k == 'GeneralizedTime':
                    zone = 'Z'
                else:
                    tot = int(off.total_seconds()) // 60
                    zone = '%s%02d%02d' % ('+' if tot >= 0 else '-', abs(tot) // 60, abs(tot) % 60)
            return ('utc' if k == 'UTCTime' else 'gen', val.replace(tzinfo=None), zone)
        return NOVALUE
    return map_values(spec, ty, modname, v, fn)


def read(spec, ty, modname, typename, text, numeric_enums=False):
    """Parse 'valuename TypeName ::= value' completely; returns the value."""
    head = '%s %s ::= ' % (typename.lower(), typename)
    if not text.startswith(head):
        raise GserError('missing wrapper %r, got %r' % (head, text[:60]))
    rd = Reader(spec, text, numeric_enums)
    rd.i = len(head)
    v = rd.value(ty, modname)
    rd.ws()
    if rd.i != len(text):
        raise GserError('trailing text at %d: %r' % (rd.i, text[rd.i:rd.i + 40]))
    return v
