"""Independent executable model of X.696 Basic OER (clauses 8-29) over the AST
for the subset named in property C06.  Shares no code with asn1tools."""
import math
import struct

from .. import asn
from . import der as dermodel
from .tlv import tag_key


class OutOfModel(Exception):
    pass


def length_det(n):
    if n < 128:
        return bytes([n])
    body = n.to_bytes((n.bit_length() + 7) // 8, 'big')
    return bytes([0x80 | len(body)]) + body


def uint_var(n):
    body = n.to_bytes(max(1, (n.bit_length() + 7) // 8), 'big')
    return length_det(len(body)) + body


def sint_var(n):
    body = dermodel.int_octets(n)
    return length_det(len(body)) + body


CLASS_BITS = {'UNIVERSAL': 0x00, 'APPLICATION': 0x40, 'CONTEXT': 0x80, 'PRIVATE': 0xc0}


def choice_tag(cls, num):
    first = CLASS_BITS[cls]
    if num < 63:
        return bytes([first | num])
    out = [num & 0x7f]
    num >>= 7
    while num:
        out.append(0x80 | (num & 0x7f))
        num >>= 7
    return bytes([first | 0x3f] + out[::-1])


class Encoder(object):
    def __init__(self, spec, numeric_enums=False):
        self.spec = spec
        self.ne = numeric_enums

    def value(self, ty, modname, v):
        r_ = asn.resolve(self.spec, ty, modname)
        if len(r_.sizes) > 1 and any(x.ext for x in r_.sizes):
            raise OutOfModel('stacked extensible size')
        r = asn.resolve(self.spec, ty, modname)
        b = r.base
        k = b.kind
        if k == 'BOOLEAN':
            return b'\xff' if v else b'\x00'
        if k == 'NULL':
            return b''
        if k == 'INTEGER':
            return self.integer(r, v)
        if k == 'ENUMERATED':
            return self.enumerated(b, v)
        if k == 'REAL':
            return self.real(b, v)
        if k == 'OBJECT IDENTIFIER':
            body = dermodel.oid_octets(v)
            return length_det(len(body)) + body
        if k == 'OCTET STRING':
            v = bytes(v)
            s = r.size
            if s is not None and not s.ext and s.lo is not None and s.lo == s.hi:
                return v
            return length_det(len(v)) + v
        if k == 'BIT STRING':
            return self.bitstring(r, v)
        if k in asn.STRING_KINDS:
            return self.string(r, v)
        if k in ('SEQUENCE', 'SET'):
            return self.sequence(r, v)
        if k == 'CHOICE':
            return self.choice(r, v)
        if k in ('SEQUENCE OF', 'SET OF'):
            return uint_var(len(v)) + b''.join(self.value(b.elem, r.mod, x) for x in v)
        raise OutOfModel(k)

    # clause 10
    def integer(self, r, v):
        rng = r.rng
        if len(r.rngs) > 1 and any(x.ext for x in r.rngs):
            # an extensible range applied on top of another range: which of them is OER-visible is not modelled
            raise OutOfModel('stacked extensible range')
        if rng is None or rng.ext:
            return sint_var(v)
        lb, ub = rng.lo, rng.hi
        if lb is not None and lb >= 0:
            if ub is None:
                return uint_var(v)
            for n in (1, 2, 4, 8):
                if ub < 1 << (8 * n):
                    return v.to_bytes(n, 'big')
            return uint_var(v)
        if lb is not None and ub is not None:
            for n in (1, 2, 4, 8):
                if lb >= -(1 << (8 * n - 1)) and ub < 1 << (8 * n - 1):
                    return v.to_bytes(n, 'big', signed=True)
        return sint_var(v)

    # clause 11
    def enumerated(self, b, v):
        if not self.ne:
            d = {e[0]: e[1] for e in list(b.enum_root) + list(b.enum_ext or [])}
            if v not in d:
                raise OutOfModel('unknown enumeration value')
            v = d[v]
        if 0 <= v <= 127:
            return bytes([v])
        body = dermodel.int_octets(v)
        return bytes([0x80 | len(body)]) + body

    # clause 12
    def real(self, b, v):
        if b.wc is not None:
            mlo, mhi, base, elo, ehi = b.wc
            if base == 2 and -16777215 <= mlo <= mhi <= 16777215 and -149 <= elo <= ehi <= 104:
                return struct.pack('>f', v)
            if base == 2 and -9007199254740991 <= mlo <= mhi <= 9007199254740991 and -1074 <= elo <= ehi <= 971:
                return struct.pack('>d', v)
        body = dermodel.real_octets(v)
        return length_det(len(body)) + body

    # clause 13
    def bitstring(self, r, v):
        data, n = v
        data = bytearray(data)[:(n + 7) // 8]
        if n % 8:
            data[-1] &= (0xff << (8 - n % 8)) & 0xff
        s = r.size
        if s is not None and not s.ext and s.lo is not None and s.lo == s.hi:
            return bytes(data)
        return length_det(len(data) + 1) + bytes([(-n) % 8]) + bytes(data)

    # clause 27
    def string(self, r, v):
        k = r.base.kind
        enc = dermodel.STRING_ENCODING[k]
        try:
            body = v.encode(enc)
        except UnicodeEncodeError:
            raise OutOfModel('character outside the encoding')
        s = r.size
        fixed = s is not None and not s.ext and s.lo is not None and s.lo == s.hi
        if fixed and k in ('NumericString', 'PrintableString', 'VisibleString', 'IA5String', 'BMPString',
                           'UniversalString'):
            return body
        return length_det(len(body)) + body

    def root_members(self, r):
        b = r.base
        ms = list(b.root or []) + list(b.root2 or [])
        if b.kind == 'SET':
            ms.sort(key=lambda m: min(tag_key(c, n) for c, n in asn.member_outer_tag_set(self.spec, m, r.mod)))
        return ms

    def is_default(self, m, mod, v):
        from .. import aeq
        cfg = aeq.EqCfg(numeric_enums=self.ne)
        return aeq.aeq(self.spec, m.ty, mod, aeq.default_value(self.spec, m, mod, cfg), v, cfg) is None

    def member_list(self, members, mod, v, ext_bit=None):
        bits = []
        if ext_bit is not None:
            bits.append(ext_bit)
        present = []
        for m in members:
            if m.optional or m.has_default:
                here = m.name in v and not (m.has_default and self.is_default(m, mod, v[m.name]))
                bits.append(1 if here else 0)
                present.append(here)
            else:
                if m.name not in v:
                    raise OutOfModel('mandatory component missing')
                present.append(True)
        out = bytearray()
        if bits:
            val = 0
            for bit in bits:
                val = (val << 1) | bit
            pad = (-len(bits)) % 8
            val <<= pad
            out += val.to_bytes((len(bits) + pad) // 8, 'big')
        for m, here in zip(members, present):
            if here:
                out += self.value(m.ty, mod, v[m.name])
        return bytes(out)

    # clause 16
    def sequence(self, r, v):
        b = r.base
        ext = b.ext is not None or self.spec.by_name[r.mod].ext_implied
        adds = []
        if ext:
            for a in (b.ext or []):
                if isinstance(a, asn.Group):
                    if any(m.name in v for m in a.members):
                        adds.append(self.member_list(a.members, r.mod, v))
                    else:
                        adds.append(None)
                else:
                    adds.append(self.value(a.ty, r.mod, v[a.name]) if a.name in v else None)
        any_add = any(x is not None for x in adds)
        out = bytearray(self.member_list(self.root_members(r), r.mod, v, ext_bit=(1 if any_add else 0) if ext else None))
        if any_add:
            n = len(adds)
            val = 0
            for x in adds:
                val = (val << 1) | (1 if x is not None else 0)
            pad = (-n) % 8
            val <<= pad
            bitmap = val.to_bytes((n + pad) // 8, 'big')
            out += length_det(len(bitmap) + 1) + bytes([pad]) + bitmap
            for x in adds:
                if x is not None:
                    out += length_det(len(x)) + x
        return bytes(out)

    # clause 20
    def choice(self, r, v):
        b = r.base
        name, inner = v
        for m in (b.root or []):
            if m.name == name:
                return self.alt_tag(m, r.mod) + self.value(m.ty, r.mod, inner)
        for a in (b.ext or []):
            for m in (a.members if isinstance(a, asn.Group) else [a]):
                if m.name == name:
                    body = self.value(m.ty, r.mod, inner)
                    return self.alt_tag(m, r.mod) + length_det(len(body)) + body
        raise OutOfModel('unknown alternative')

    def alt_tag(self, m, mod):
        layers, rr = asn.member_tags(self.spec, m, mod)
        if layers:
            return choice_tag(layers[0][0], layers[0][1])
        if rr.base.kind == 'CHOICE':
            raise OutOfModel('untagged CHOICE alternative')
        return choice_tag('UNIVERSAL', asn.UNIVERSAL_TAG[rr.base.kind])


def encode(spec, ty, modname, v, numeric_enums=False):
    return Encoder(spec, numeric_enums).value(ty, modname, v)
