"""Expected error location (dotted path) for a component of a value (C12).

The path is the top-level type name followed by the member / alternative names
down to the component; SEQUENCE OF / SET OF levels contribute no name.  Where
the library's type checker passes through a *recursive* type reference it also
inserts the referenced type's name (documented artefact): those tokens are
optional in the comparison."""
from .. import asn


def value_paths(spec, ty, modname, typename, value):
    """list of token lists in the pre-order of common.walk_values / map_values.
    token = (name, optional)"""
    out = []

    def rec(ty, mod, v, tokens, stack):
        r = asn.resolve(spec, ty, mod)
        toks = list(tokens)
        new_stack = stack
        for ref in r.chain:
            if ref in stack:
                toks.append((ref, True))        # recursion artefact
            else:
                new_stack = new_stack + (ref,)
        out.append(toks)
        b = r.base
        if b.kind in ('SEQUENCE', 'SET') and isinstance(v, dict):
            for m in b.all_members():
                if m.name in v:
                    rec(m.ty, r.mod, v[m.name], toks + [(m.name, False)], new_stack)
        elif b.kind == 'CHOICE' and isinstance(v, tuple) and len(v) == 2:
            for m in b.all_members():
                if m.name == v[0]:
                    rec(m.ty, r.mod, v[1], toks + [(m.name, False)], new_stack)
        elif b.kind in ('SEQUENCE OF', 'SET OF') and isinstance(v, list):
            for i, x in enumerate(v[:50]):
                rec(b.elem, r.mod, x, toks, new_stack)
    rec(ty, modname, value, [(typename, False)], (typename,))
    return out


def matches(tokens, got_path):
    """does the dotted path match the tokens (optional tokens may be absent)?"""
    got = got_path.split('.') if got_path else []

    def m(i, j):
        if i == len(tokens):
            return j == len(got)
        name, opt = tokens[i]
        if j < len(got) and got[j] == name and m(i + 1, j + 1):
            return True
        if opt:
            return m(i + 1, j)
        return False
    return m(0, 0)


def show(tokens):
    return '.'.join(('(%s)' % n if o else n) for n, o in tokens)
