"""Independent executable model of X.691 (PER), aligned and unaligned BASIC
variants, for the PER-visible subset named in property C05.  Driven by the AST
(vlib.asn); shares no code with asn1tools.

Clause numbers refer to X.691 (2015).  Anything this model does not cover
raises OutOfModel, which callers count and skip (never a verdict).
"""
import math

from .. import asn
from . import der as dermodel
from .tlv import tag_key


class OutOfModel(Exception):
    pass


class Bits(object):
    def __init__(self, aligned):
        self.aligned = aligned
        self.bits = []          # list of (value, nbits) chunks
        self.n = 0

    def put(self, value, nbits):
        if nbits < 0 or value < 0 or value >> nbits:
            raise ValueError('field overflow %d in %d bits' % (value, nbits))
        if nbits:
            self.bits.append((value, nbits))
            self.n += nbits

    def put_bytes(self, data):
        for b in data:
            self.put(b, 8)

    def align(self):
        if self.aligned and self.n % 8:
            self.put(0, 8 - self.n % 8)

    def pad_to_octet(self):
        if self.n % 8:
            self.put(0, 8 - self.n % 8)

    def to_bytes(self):
        v = 0
        for value, nbits in self.bits:
            v = (v << nbits) | value
        n = self.n
        if n % 8:
            v <<= 8 - n % 8
            n += 8 - n % 8
        return v.to_bytes(n // 8, 'big') if n else b''

    def extend(self, other):
        for value, nbits in other.bits:
            self.put(value, nbits)


def bits_for(range_):
    """number of bits for a constrained whole number of the given range (10.5.6)"""
    return 0 if range_ <= 1 else (range_ - 1).bit_length()


def octets_of(n):
    return max(1, (n.bit_length() + 7) // 8)


# ---------------------------------------------------------------- 10.5 - 10.9

def constrained_whole_number(w, n, lb, ub):
    rng = ub - lb + 1
    v = n - lb
    if rng == 1:
        return
    if not w.aligned:
        w.put(v, bits_for(rng))
        return
    if rng <= 255:
        w.put(v, bits_for(rng))
    elif rng == 256:
        w.align()
        w.put(v, 8)
    elif rng <= 65536:
        w.align()
        w.put(v, 16)
    else:
        # 10.5.7.4 indefinite length case
        maxoct = octets_of(rng - 1)
        noct = octets_of(v)
        constrained_whole_number(w, noct, 1, maxoct)
        w.align()
        w.put(v, 8 * noct)


def length_unconstrained(w, n):
    """10.9.3.5-10.9.3.8 for one length < 16K (fragmentation handled by callers); aligned"""
    w.align()
    if n < 128:
        w.put(n, 8)
    elif n < 16384:
        w.put(0x8000 | n, 16)
    else:
        raise ValueError('fragment needed')


def fragments(n):
    """yield (count, is_fragment_header_multiple) per 10.9.3.8"""
    out = []
    while n >= 16384:
        m = min(n // 16384, 4)
        out.append((m * 16384, m))
        n -= m * 16384
    out.append((n, 0))
    return out


def normally_small(w, n):
    """10.6"""
    if n < 64:
        w.put(0, 1)
        w.put(n, 6)
    else:
        w.put(1, 1)
        semi_constrained(w, n, 0)


def semi_constrained(w, n, lb):
    """10.7 with 10.9 length"""
    v = n - lb
    noct = octets_of(v)
    length_unconstrained(w, noct)
    w.put(v, 8 * noct)


def unconstrained_int(w, n):
    """10.8"""
    body = dermodel.int_octets(n)
    length_unconstrained(w, len(body))
    w.put_bytes(body)


def normally_small_length(w, n):
    """10.9.3.4 (n >= 1)"""
    if n <= 64:
        w.put(0, 1)
        w.put(n - 1, 6)
    else:
        w.put(1, 1)
        length_unconstrained(w, n)


def with_length(w, n, lb, ub, put_items, unit_aligned=True):
    """Length determinant for n items with effective size constraint (lb, ub) [ub None =
    unbounded] followed by the items: put_items(start, count).  Handles fragmentation."""
    if ub is not None and ub < 65536:
        if lb != ub:
            constrained_whole_number(w, n, lb, ub)
        put_items(0, n, first=True)
        return
    start = 0
    for count, m in fragments(n):
        w.align()
        if m:
            w.put(0xc0 | m, 8)
        else:
            length_unconstrained(w, count)
        put_items(start, count, first=(start == 0))
        start += count


# ---------------------------------------------------------------- constraints

def eff_size(r):
    """(lb, ub, extensible) or None"""
    s = r.size
    if s is None:
        return None
    return (s.lo or 0, s.hi, s.ext)


KM_BUILTIN = {
    'NumericString': asn.NUMERIC_ALPHA,
    'PrintableString': ''.join(sorted(asn.PRINTABLE_ALPHA)),
    'VisibleString': asn.VISIBLE_ALPHA,
    'IA5String': asn.IA5_ALPHA,
}


class Encoder(object):
    def __init__(self, spec, aligned, numeric_enums=False):
        self.spec = spec
        self.aligned = aligned
        self.ne = numeric_enums

    def new(self):
        return Bits(self.aligned)

    def encode(self, ty, modname, v):
        w = self.new()
        self.value(w, ty, modname, v)
        return w.to_bytes()

    # ------------------------------------------------------------------
    def value(self, w, ty, modname, v):
        r = asn.resolve(self.spec, ty, modname)
        b = r.base
        k = b.kind
        if k == 'BOOLEAN':
            w.put(1 if v else 0, 1)
        elif k == 'NULL':
            pass
        elif k == 'INTEGER':
            self.integer(w, r, v)
        elif k == 'ENUMERATED':
            self.enumerated(w, b, v)
        elif k == 'REAL':
            body = dermodel.real_octets(v)
            self.octets_with_length(w, body)
        elif k == 'OBJECT IDENTIFIER':
            self.octets_with_length(w, dermodel.oid_octets(v))
        elif k == 'BIT STRING':
            self.bitstring(w, r, v)
        elif k == 'OCTET STRING':
            self.octetstring(w, r, v)
        elif k in ('NumericString', 'PrintableString', 'VisibleString', 'IA5String', 'BMPString',
                   'UniversalString'):
            self.km_string(w, r, v)
        elif k in ('UTF8String', 'GeneralString', 'GraphicString', 'TeletexString'):
            body = v.encode(dermodel.STRING_ENCODING[k])
            self.octets_with_length(w, body)
        elif k in ('UTCTime', 'GeneralizedTime'):
            s = dermodel.time_octets(k, v).decode('ascii')
            self.km_chars(w, s, None, asn.VISIBLE_ALPHA, 8 if self.aligned else 7, 0x7e)
        elif k in ('SEQUENCE', 'SET'):
            self.sequence(w, r, v)
        elif k == 'CHOICE':
            self.choice(w, r, v)
        elif k in ('SEQUENCE OF', 'SET OF'):
            self.sequence_of(w, r, v)
        else:
            raise OutOfModel(k)

    def octets_with_length(self, w, body):
        def put(start, count, first):
            w.put_bytes(body[start:start + count])
        with_length(w, len(body), 0, None, put)

    # 12
    def integer(self, w, r, v):
        rng = r.rng
        if rng is None:
            unconstrained_int(w, v)
            return
        lb, ub = rng.lo, rng.hi
        if rng.ext:
            in_root = rng.contains_root(v)
            w.put(0 if in_root else 1, 1)
            if not in_root:
                unconstrained_int(w, v)
                return
        if lb is not None and ub is not None:
            constrained_whole_number(w, v, lb, ub)
        elif lb is not None:
            semi_constrained(w, v, lb)
        else:
            unconstrained_int(w, v)

    # 13
    def enumerated(self, w, b, v):
        root = sorted(b.enum_root, key=lambda e: e[1])
        key = 1 if self.ne else 0
        for i, e in enumerate(root):
            if e[key] == v:
                if b.enum_ext is not None:
                    w.put(0, 1)
                constrained_whole_number(w, i, 0, len(root) - 1)
                return
        for i, e in enumerate(b.enum_ext or []):
            if e[key] == v:
                w.put(1, 1)
                normally_small(w, i)
                return
        raise OutOfModel('unknown enumeration value')

    # 16
    def bitstring(self, w, r, v):
        data, n = v
        data = bytearray(data)[:(n + 7) // 8]
        if n % 8:
            data[-1] &= (0xff << (8 - n % 8)) & 0xff
        size = eff_size(r)
        if r.base.named_bits:
            while n > 0 and not (data[(n - 1) // 8] >> (7 - (n - 1) % 8)) & 1:
                n -= 1
            if size is not None and n < size[0]:
                n = size[0]
            data = (data + bytearray((n + 7) // 8))[:(n + 7) // 8]
        bits = int.from_bytes(bytes(data), 'big') >> (len(data) * 8 - n) if n else 0

        def put(start, count, first):
            if count:
                w.put((bits >> (n - start - count)) & ((1 << count) - 1), count)
        lb, ub = 0, None
        if size is not None:
            lb, ub, ext = size
            if ext:
                in_root = n >= lb and (ub is None or n <= ub)
                w.put(0 if in_root else 1, 1)
                if not in_root:
                    lb, ub = 0, None
        if ub is not None and ub < 65536:
            if lb == ub:
                if ub == 0:
                    return
                if ub > 16:
                    w.align()
                put(0, n, True)
            else:
                constrained_whole_number(w, n, lb, ub)
                w.align()
                put(0, n, True)
            return
        with_length(w, n, lb, ub, put)

    # 17
    def octetstring(self, w, r, v):
        v = bytes(v)
        n = len(v)
        size = eff_size(r)
        lb, ub = 0, None
        if size is not None:
            lb, ub, ext = size
            if ext:
                in_root = n >= lb and (ub is None or n <= ub)
                w.put(0 if in_root else 1, 1)
                if not in_root:
                    lb, ub = 0, None

        def put(start, count, first):
            w.put_bytes(v[start:start + count])
        if ub is not None and ub < 65536:
            if lb == ub:
                if ub == 0:
                    return
                if ub > 2:
                    w.align()
                put(0, n, True)
            else:
                constrained_whole_number(w, n, lb, ub)
                w.align()
                put(0, n, True)
            return
        with_length(w, n, lb, ub, put)

    # 30
    def km_string(self, w, r, v):
        k = r.base.kind
        if k == 'BMPString':
            full_n, full_max = 65536, 0xffff
            alphabet = None
        elif k == 'UniversalString':
            full_n, full_max = 2 ** 32, 2 ** 32 - 1
            alphabet = None
        else:
            alphabet = KM_BUILTIN[k]
            full_n, full_max = len(alphabet), max(ord(c) for c in alphabet)
        if r.alpha is not None:
            alphabet = r.alpha.chars()
        if alphabet is not None:
            n_chars = len(alphabet)
            max_char = max(ord(c) for c in alphabet)
        else:
            n_chars, max_char = full_n, full_max
        b = bits_for(n_chars)
        if self.aligned:
            b2 = 1
            while b2 < b:
                b2 *= 2
            b = b2 if b else 0
        self.km_chars(w, v, eff_size(r), alphabet, b, max_char)

    def km_chars(self, w, s, size, alphabet, b, max_char):
        n = len(s)
        remap = alphabet is not None and max_char >= (1 << b) if b else False
        index = {c: i for i, c in enumerate(sorted(alphabet))} if alphabet is not None else None

        def code(c):
            if index is not None and c not in index:
                raise OutOfModel('character outside the alphabet')
            if b == 0:
                return 0
            return index[c] if remap else ord(c)

        def put(start, count, first):
            for c in s[start:start + count]:
                w.put(code(c), b)
        lb, ub = 0, None
        if size is not None:
            lb, ub, ext = size
            if ext:
                in_root = n >= lb and (ub is None or n <= ub)
                w.put(0 if in_root else 1, 1)
                if not in_root:
                    lb, ub = 0, None
        if ub is not None and ub < 65536:
            if lb == ub:
                if ub * b > 16:
                    w.align()
                put(0, n, True)
            else:
                constrained_whole_number(w, n, lb, ub)
                # 30.5.7: variable size is octet-aligned from 16 bits on (30.5.6, fixed size: above 16 bits)
                if ub * b >= 16:
                    w.align()
                put(0, n, True)
            return

        def put_aligned(start, count, first):
            put(start, count, first)
        with_length(w, n, lb, ub, put_aligned)

    # 19 / 21
    def root_members(self, r):
        b = r.base
        ms = list(b.root or []) + list(b.root2 or [])
        if b.kind == 'SET':
            ms.sort(key=lambda m: min(tag_key(c, n) for c, n in
                                      asn.member_outer_tag_set(self.spec, m, r.mod)))
        return ms

    def is_default(self, m, mod, v):
        from .. import aeq
        cfg = aeq.EqCfg(numeric_enums=self.ne)
        return aeq.aeq(self.spec, m.ty, mod, aeq.default_value(self.spec, m, mod, cfg), v, cfg) is None

    def member_list(self, w, members, mod, v):
        present = []
        for m in members:
            if m.optional or m.has_default:
                here = m.name in v and not (m.has_default and self.is_default(m, mod, v[m.name]))
                w.put(1 if here else 0, 1)
                present.append(here)
            else:
                if m.name not in v:
                    raise OutOfModel('mandatory component missing')
                present.append(True)
        for m, here in zip(members, present):
            if here:
                self.value(w, m.ty, mod, v[m.name])

    def extensible(self, r):
        return r.base.ext is not None or self.spec.by_name[r.mod].ext_implied

    def sequence(self, w, r, v):
        b = r.base
        ext = self.extensible(r)
        additions = list(b.ext or [])
        enc_adds = []
        if ext:
            for a in additions:
                if isinstance(a, asn.Group):
                    # the group is there if one of its components is: a component that is absent, or has its DEFAULT
                    # value (never encoded for the simple types, X.691 19.5), does not make it present
                    if any(m.name in v and not (m.has_default and self.is_default(m, r.mod, v[m.name]))
                           for m in a.members):
                        # a group is a SEQUENCE of its members (19.9)
                        ww = self.new()
                        self.member_list(ww, a.members, r.mod, v)
                        enc_adds.append(ww)
                    else:
                        enc_adds.append(None)
                else:
                    if a.name in v:
                        ww = self.new()
                        self.value(ww, a.ty, r.mod, v[a.name])
                        enc_adds.append(ww)
                    else:
                        enc_adds.append(None)
            any_add = any(x is not None for x in enc_adds)
            w.put(1 if any_add else 0, 1)
        self.member_list(w, self.root_members(r), r.mod, v)
        if ext and any(x is not None for x in enc_adds):
            normally_small_length(w, len(enc_adds))
            for x in enc_adds:
                w.put(1 if x is not None else 0, 1)
            for x in enc_adds:
                if x is not None:
                    self.open_type(w, x)

    def open_type(self, w, inner):
        body = inner.to_bytes()
        if not body:
            body = b'\x00'          # 10.1.3: an empty encoding becomes one zero octet
        self.octets_with_length(w, body)

    # 23
    def choice(self, w, r, v):
        b = r.base
        ext = self.extensible(r)
        root = list(b.root or [])
        root.sort(key=lambda m: min(tag_key(c, n) for c, n in asn.member_outer_tag_set(self.spec, m, r.mod)))
        name, inner = v
        for i, m in enumerate(root):
            if m.name == name:
                if ext:
                    w.put(0, 1)
                constrained_whole_number(w, i, 0, len(root) - 1)
                self.value(w, m.ty, r.mod, inner)
                return
        adds = []
        for a in (b.ext or []):
            adds.extend(a.members if isinstance(a, asn.Group) else [a])
        for i, m in enumerate(adds):
            if m.name == name:
                w.put(1, 1)
                normally_small(w, i)
                ww = self.new()
                self.value(ww, m.ty, r.mod, inner)
                self.open_type(w, ww)
                return
        raise OutOfModel('unknown alternative')

    # 20 / 22
    def sequence_of(self, w, r, v):
        b = r.base
        n = len(v)
        size = eff_size(r)
        lb, ub = 0, None
        if size is not None:
            lb, ub, ext = size
            if ext:
                in_root = n >= lb and (ub is None or n <= ub)
                w.put(0 if in_root else 1, 1)
                if not in_root:
                    lb, ub = 0, None

        def put(start, count, first):
            for x in v[start:start + count]:
                self.value(w, b.elem, r.mod, x)
        if ub is not None and ub < 65536:
            if lb != ub:
                constrained_whole_number(w, n, lb, ub)
            put(0, n, True)
            return
        with_length(w, n, lb, ub, put)


def encode(spec, ty, modname, v, aligned, numeric_enums=False):
    """complete encoding (10.1): an empty bit string becomes a single zero octet (10.1.3)"""
    body = Encoder(spec, aligned, numeric_enums).encode(ty, modname, v)
    return body if body else b'\x00'


def encode_bits(spec, ty, modname, v, aligned, numeric_enums=False):
    w = Bits(aligned)
    Encoder(spec, aligned, numeric_enums).value(w, ty, modname, v)
    return w.n, w.to_bytes()
