"""Independent BER/DER TLV layer (X.690 clause 8.1): identifier and length
octets, parser (definite, long, indefinite), serialiser with the degrees of
freedom BER allows (used by C03 re-read, C04 rewrites, C15 header length)."""

CLASS_BITS = {'UNIVERSAL': 0x00, 'APPLICATION': 0x40, 'CONTEXT': 0x80, 'PRIVATE': 0xc0}
CLASS_NAMES = {v: k for k, v in CLASS_BITS.items()}
CLASS_ORDER = {'UNIVERSAL': 0, 'APPLICATION': 1, 'CONTEXT': 2, 'PRIVATE': 3}


class TlvError(Exception):
    pass


class Node(object):
    __slots__ = ('cls', 'num', 'constructed', 'content', 'children', 'kind', 'indefinite', 'note')

    def __init__(self, cls, num, constructed, content=None, children=None, kind='prim'):
        self.cls, self.num, self.constructed = cls, num, constructed
        self.content = content
        self.children = children
        self.kind = kind
        self.indefinite = False
        self.note = None

    def copy(self):
        n = Node(self.cls, self.num, self.constructed, self.content,
                 None if self.children is None else [c.copy() for c in self.children], self.kind)
        n.indefinite = self.indefinite
        return n


def enc_tag(cls, num, constructed):
    first = CLASS_BITS[cls] | (0x20 if constructed else 0)
    if num < 31:
        return bytes([first | num])
    out = [num & 0x7f]
    num >>= 7
    while num:
        out.append(0x80 | (num & 0x7f))
        num >>= 7
    return bytes([first | 0x1f] + out[::-1])


def enc_len(n, pad=0):
    """definite length; pad > 0 forces long form with that many superfluous leading zero octets"""
    if n < 128 and pad == 0:
        return bytes([n])
    body = n.to_bytes(max(1, (n.bit_length() + 7) // 8), 'big')
    body = b'\x00' * pad + body
    if len(body) > 126:
        raise TlvError('length of length')
    return bytes([0x80 | len(body)]) + body


def serialize(node):
    """DER-style serialisation (definite minimal lengths) unless node.indefinite"""
    if node.children is not None:
        body = b''.join(serialize(c) for c in node.children)
    else:
        body = node.content
    head = enc_tag(node.cls, node.num, node.constructed)
    if node.indefinite:
        return head + b'\x80' + body + b'\x00\x00'
    return head + enc_len(len(body)) + body


def parse_header(data, off):
    if off >= len(data):
        raise TlvError('no identifier octet at %d' % off)
    b = data[off]
    off += 1
    cls = CLASS_NAMES[b & 0xc0]
    constructed = bool(b & 0x20)
    num = b & 0x1f
    if num == 0x1f:
        num = 0
        first = True
        while True:
            if off >= len(data):
                raise TlvError('truncated tag')
            o = data[off]
            off += 1
            if first and o == 0x80:
                raise TlvError('non-minimal tag number')
            first = False
            num = (num << 7) | (o & 0x7f)
            if not o & 0x80:
                break
    if off >= len(data):
        raise TlvError('no length octet')
    L = data[off]
    off += 1
    if L == 0x80:
        return cls, num, constructed, None, off, 'indefinite'
    form = 'short'
    if L & 0x80:
        n = L & 0x7f
        if n == 0x7f:
            raise TlvError('reserved length octet')
        if off + n > len(data):
            raise TlvError('truncated length')
        raw = data[off:off + n]
        L = int.from_bytes(raw, 'big')
        off += n
        form = 'long-minimal' if (L >= 128 and raw[0] != 0) else 'long-nonminimal'
    return cls, num, constructed, L, off, form


def parse(data, off=0, der=False, _depth=0):
    """-> (Node, end offset).  der=True enforces definite minimal lengths."""
    if _depth > 200:
        raise TlvError('nesting too deep')
    cls, num, constructed, L, off, form = parse_header(data, off)
    node = Node(cls, num, constructed)
    if der and form not in ('short', 'long-minimal'):
        raise TlvError('length form %s is not DER' % form)
    if L is None:
        if not constructed:
            raise TlvError('indefinite length on primitive encoding')
        node.indefinite = True
        node.children = []
        while True:
            if data[off:off + 2] == b'\x00\x00':
                off += 2
                break
            if off >= len(data):
                raise TlvError('missing end-of-contents')
            c, off = parse(data, off, der, _depth + 1)
            node.children.append(c)
        return node, off
    end = off + L
    if end > len(data):
        raise TlvError('contents exceed data')
    if constructed:
        node.children = []
        while off < end:
            c, off = parse(data, off, der, _depth + 1)
            node.children.append(c)
        if off != end:
            raise TlvError('children overrun the length')
    else:
        node.content = bytes(data[off:end])
    return node, end


def header_len(data):
    cls, num, constructed, L, off, form = parse_header(data, 0)
    return off


def tag_key(cls, num):
    # the conceptual tag of an extension insertion point ('EXT') orders after every real tag
    return (CLASS_ORDER.get(cls, 9), num)
