"""Shared runner: shards over processes, collect-then-shrink, known findings,
replay files, evidence.  See DESIGN.md section 1."""
import collections
import concurrent.futures
import json
import os
import signal
import sys
import time
import traceback

from . import env
from . import jsonio

VERIF = env.VERIF_DIR
NPROC = int(os.environ.get('ASN1V_NPROC', '16'))


class Failure(object):
    """One property violation observed on one case."""

    def __init__(self, kind, message, case, features=(), exc=None):
        self.kind = kind            # short class of failure, e.g. 'roundtrip-mismatch'
        self.message = message
        self.case = case            # JSON-able dict (replay payload)
        self.features = tuple(features)   # tags describing the failing input (for predicates)
        self.exc = exc              # (type name, innermost asn1tools frame) or None

    def bucket(self):
        return '%s|%s|%s' % (self.kind, self.exc[0] if self.exc else '-',
                             self.exc[1] if self.exc else '-')


def exc_sig(e):
    """(exception type name, innermost frame inside asn1tools as file:function)."""
    tb = e.__traceback__
    inner = '-'
    while tb is not None:
        fn = tb.tb_frame.f_code.co_filename
        if os.sep + 'asn1tools' + os.sep in fn:
            inner = '%s:%s' % (os.path.basename(fn), tb.tb_frame.f_code.co_name)
        tb = tb.tb_next
    return (type(e).__name__, inner)


class Rec(object):
    """Per-shard recorder."""

    def __init__(self, prop):
        self.prop = prop
        self.cases = 0
        self.evaluations = 0
        self.nontrivial = set()
        self.classes = collections.Counter()
        self.discarded = collections.Counter()
        self.samples = []
        self.failures = {}      # bucket -> dict(count, case, message, size, features, kind)
        self.known = collections.Counter()
        self.notes = collections.Counter()
        self.raise_bucket = None    # shrink mode: raise when this bucket fails
        self.best = None
        self.max_samples = 4

    def ev(self, n=1):
        self.evaluations += n

    def cls(self, name, n=1):
        self.classes[name] += n

    def nt(self, *parts):
        self.nontrivial.add(jsonio.h(*parts))

    def sample(self, s):
        if len(self.samples) < self.max_samples:
            self.samples.append(s)

    def fail(self, f):
        from . import findings
        fid = findings.match(self.prop, f)
        if fid is not None:
            self.known[fid] += 1
            return
        b = f.bucket()
        size = len(jsonio.dumps(f.case))
        if self.raise_bucket is not None:
            if b == self.raise_bucket:
                if self.best is None or size < self.best[0]:
                    self.best = (size, f)
                raise ShrinkHit(b)
            return
        cur = self.failures.get(b)
        if cur is None or size < cur['size']:
            self.failures[b] = {'count': (cur['count'] if cur else 0) + 1, 'case': f.case,
                                'message': f.message, 'size': size,
                                'features': list(f.features), 'kind': f.kind}
        else:
            cur['count'] += 1

    def result(self):
        return {'cases': self.cases, 'evaluations': self.evaluations,
                'nontrivial': sorted(self.nontrivial), 'classes': dict(self.classes),
                'discarded': dict(self.discarded), 'samples': self.samples,
                'failures': self.failures, 'known': dict(self.known),
                'notes': dict(self.notes)}


class ShrinkHit(Exception):
    pass


class CaseHang(BaseException):
    """A single library call on a small generated case did not return in time."""


class watchdog(object):
    """Bound one oracle execution by wall-clock seconds (SIGALRM).  Only used to turn a
    non-returning library call into a reportable event; never a correctness signal for
    calls that do return."""

    # The budget is CPU time of this process (ITIMER_PROF), so a loaded machine cannot turn a
    # call that does return into a "hang"; a wall-clock backstop 15 times larger catches a call
    # that blocks without burning CPU.

    def __init__(self, seconds):
        self.seconds = seconds

    def __enter__(self):
        def on_alarm(signum, frame):
            raise CaseHang()
        self.old = signal.signal(signal.SIGALRM, on_alarm)
        self.oldp = signal.signal(signal.SIGPROF, on_alarm)
        signal.setitimer(signal.ITIMER_PROF, self.seconds)
        signal.setitimer(signal.ITIMER_REAL, self.seconds * 15)

    def __exit__(self, *a):
        signal.setitimer(signal.ITIMER_PROF, 0)
        signal.setitimer(signal.ITIMER_REAL, 0)
        signal.signal(signal.SIGALRM, self.old)
        signal.signal(signal.SIGPROF, self.oldp)
        return False


class _Timeout(KeyboardInterrupt):
    pass


def hyp_run(strategy, body, seed, max_examples, rec, shrink=False, timeout=None):
    """Run body(case, rec) over generated cases.  Collect mode never raises for
    property failures; shrink mode raises ShrinkHit for rec.raise_bucket and lets
    Hypothesis minimise it (rec.best keeps the smallest failing case seen)."""
    import hypothesis
    from hypothesis import given, settings, HealthCheck, Phase

    phases = [Phase.generate, Phase.shrink] if shrink else [Phase.generate]

    @hypothesis.seed(seed)
    @settings(max_examples=max_examples, database=None, deadline=None, derandomize=False,
              report_multiple_bugs=False, phases=phases, print_blob=False,
              suppress_health_check=list(HealthCheck), verbosity=hypothesis.Verbosity.quiet)
    @given(strategy)
    def t(case):
        if timeout and time.time() - t_start > timeout:
            raise _Timeout()
        rec.cases += 1
        body(case, rec)

    t_start = time.time()

    try:
        t()
    except ShrinkHit:
        pass
    except _Timeout:
        rec.notes['shrink-timeout'] += 1


# ---------------------------------------------------------------------------

class Check(object):
    id = None
    level = 'exploration'
    rule = ''
    assumptions = []
    engine = 'hypothesis'

    def shards(self, tier):
        """list of JSON-able shard descriptors"""
        raise NotImplementedError

    def run_shard(self, shard, tier, seed, rec):
        raise NotImplementedError

    def replay(self, case, rec):
        """re-execute the oracle on exactly this case (no Hypothesis)"""
        raise NotImplementedError

    def selftest(self):
        """return dict for evidence, raise env.InfraError on model failure"""
        return None

    def extra_evidence(self, merged):
        return {}


def _worker(args):
    modname, shard, tier, seed, shrink_bucket, timeout = args
    try:
        import importlib
        mod = importlib.import_module(modname)
        check = mod.CHECK
        rec = Rec(check.id)
        if shrink_bucket is not None:
            rec.raise_bucket = shrink_bucket
            shard = dict(shard)
            shard['_shrink'] = True
            shard['_timeout'] = timeout
        t0 = time.time()
        check.run_shard(shard, tier, seed, rec)
        out = rec.result()
        out['wall'] = time.time() - t0
        if shrink_bucket is not None:
            out['best'] = None
            if rec.best is not None:
                f = rec.best[1]
                out['best'] = {'case': f.case, 'message': f.message, 'kind': f.kind,
                               'features': list(f.features)}
        return ('ok', shard, out)
    except BaseException as e:     # harness error
        return ('err', shard, traceback.format_exc())


def known_findings(prop):
    """[(status, id, replay path, text)] from known-findings.txt for this property."""
    out = []
    p = os.path.join(VERIF, 'known-findings.txt')
    if not os.path.exists(p):
        return out
    for line in open(p):
        line = line.strip()
        if not line or line.startswith('#'):
            continue
        if line.startswith('known:'):
            head, _, text = line[len('known:'):].partition('::')
            kv = dict(x.split('=', 1) for x in head.split() if '=' in x)
            if kv.get('property') == prop:
                out.append(('known', kv.get('id'), kv.get('replay'), text.strip()))
        elif line.startswith('fixed:'):
            rest = line[len('fixed:'):].strip()
            kv = dict(x.split('=', 1) for x in rest.split() if '=' in x)
            if kv.get('property') == prop:
                out.append(('fixed', kv.get('id'), kv.get('replay'), rest))
    return out


def run_replay_file(check, path):
    """Returns list of Failure-like dicts (empty = passes)."""
    with open(path) as f:
        case = json.load(f)
    rec = Rec(check.id)
    rec.raise_bucket = None
    # replay must not consult known-finding predicates
    rec._no_match = True
    fails = []

    def fail(f):
        fails.append(f)
    rec.fail = fail
    check.replay(case, rec)
    return fails


def main(check_modname, argv):
    import argparse
    import importlib
    ap = argparse.ArgumentParser()
    ap.add_argument('--tier', default=os.environ.get('VERIF_TIER', 'quick'))
    ap.add_argument('--replay')
    ap.add_argument('--shard', type=int, default=None, help='debug: run one shard in-process')
    ap.add_argument('--scale', type=float, default=1.0)
    a = ap.parse_args(argv)
    tier = a.tier if a.tier in ('quick', 'thorough') else 'quick'
    mod = importlib.import_module(check_modname)
    check = mod.CHECK
    prop = check.id
    seed = env.seed()
    t0 = time.time()

    if a.replay:
        fails = run_replay_file(check, a.replay)
        if fails:
            for f in fails:
                print('replay fails: %s: %s' % (f.kind, f.message))
            print('VIOLATION property=%s replay=%s' % (prop, a.replay))
            return 1
        print('replay passes: %s' % a.replay)
        return 0

    os.environ['ASN1V_SCALE'] = str(a.scale)
    selftest = check.selftest()

    # 1. pinned replays (known findings and fixed entries)
    kf = known_findings(prop)
    kf_status = {}
    violations = []
    for status, fid, rp, text in kf:
        if not rp:
            continue
        path = os.path.join(VERIF, rp)
        if not os.path.exists(path):
            raise env.InfraError('pinned replay missing: %s' % rp)
        fails = run_replay_file(check, path)
        if status == 'known':
            kf_status[fid] = bool(fails)
            if fails:
                print('KNOWN-FINDING: property=%s %s' % (prop, text))
            else:
                print('note: known finding %s no longer reproduces on its pinned input' % fid)
        else:
            if fails:
                violations.append((rp, 'regression of fixed defect: ' + fails[0].message))

    # 2. regression replays
    rdir = os.path.join(VERIF, 'replays', prop, 'regress')
    n_reg = 0
    if os.path.isdir(rdir):
        for fn in sorted(os.listdir(rdir)):
            if fn.endswith('.json'):
                n_reg += 1
                fails = run_replay_file(check, os.path.join(rdir, fn))
                if fails:
                    violations.append((os.path.join('replays', prop, 'regress', fn), fails[0].message))

    # 3. exploration
    shards = check.shards(tier)
    jobs = [(check_modname, s, tier, seed * 1009 + i, None, None) for i, s in enumerate(shards)]
    merged = {'cases': 0, 'evaluations': 0, 'nontrivial': set(), 'classes': collections.Counter(),
              'discarded': collections.Counter(), 'samples': [], 'failures': {},
              'known': collections.Counter(), 'notes': collections.Counter(), 'shards': len(shards)}
    errors = []
    if a.shard is not None:
        results = [_worker(jobs[a.shard])]
    else:
        with concurrent.futures.ProcessPoolExecutor(max_workers=min(NPROC, max(1, len(jobs)))) as ex:
            results = list(ex.map(_worker, jobs))
    for (status, shard, out), job in zip(results, jobs):
        if status == 'err':
            errors.append((shard, out))
            continue
        merged['cases'] += out['cases']
        merged['evaluations'] += out['evaluations']
        merged['nontrivial'].update(out['nontrivial'])
        merged['classes'].update(out['classes'])
        merged['discarded'].update(out['discarded'])
        merged['known'].update(out['known'])
        merged['notes'].update(out['notes'])
        if len(merged['samples']) < 10:
            merged['samples'].extend(out['samples'][:2])
        for b, f in out['failures'].items():
            cur = merged['failures'].get(b)
            f = dict(f)
            f['job'] = job
            if cur is None:
                merged['failures'][b] = f
            else:
                cnt = cur['count'] + f['count']
                if f['size'] < cur['size']:
                    merged['failures'][b] = f
                merged['failures'][b]['count'] = cnt
    if errors:
        for shard, tb in errors[:3]:
            sys.stderr.write('HARNESS ERROR in shard %r:\n%s\n' % (shard, tb))
        print('harness error in %d shard(s); no verdict' % len(errors))
        return 2

    # 4. shrink new buckets (bounded), write replays
    vdir = os.path.join(VERIF, 'violations', prop)
    buckets = sorted(merged['failures'].items(), key=lambda kv: kv[1]['size'])
    shrink_timeout = 45 if tier == 'quick' else 240
    shrunk = {}
    to_shrink = buckets[:6] if os.environ.get('ASN1V_NOSHRINK') != '1' else []
    if to_shrink:
        sjobs = [(check_modname, f['job'][1], tier, f['job'][3], b, shrink_timeout)
                 for b, f in to_shrink]
        with concurrent.futures.ProcessPoolExecutor(max_workers=min(NPROC, len(sjobs))) as ex:
            for (b, f), (status, shard, out) in zip(to_shrink, ex.map(_worker, sjobs)):
                if status == 'ok' and out.get('best'):
                    best = out['best']
                    if len(jsonio.dumps(best['case'])) <= f['size']:
                        shrunk[b] = best
    for b, f in buckets:
        best = shrunk.get(b)
        case = best['case'] if best else f['case']
        msg = best['message'] if best else f['message']
        os.makedirs(vdir, exist_ok=True)
        name = 'v-%s.json' % jsonio.h(b)
        path = os.path.join(vdir, name)
        case = dict(case)
        case['property'] = prop
        case['found'] = msg
        case['bucket'] = b
        case['seed'] = seed
        with open(path, 'w') as fo:
            json.dump(case, fo, indent=1, sort_keys=True)
        violations.append((os.path.relpath(path, VERIF), '%s (x%d) %s' % (b, f['count'], msg)))

    wall = time.time() - t0
    # 5. evidence
    cov = {
        'evaluations': merged['evaluations'],
        'distinct_nontrivial': len(merged['nontrivial']),
        'rule': check.rule,
        'samples': merged['samples'][:10],
        'cases_generated': merged['cases'],
        'classes': dict(sorted(merged['classes'].items())),
        'discarded': dict(merged['discarded']),
        'attributed_to_known_findings': dict(merged['known']),
        'known_findings_replayed': kf_status,
        'regression_replays': n_reg,
        'notes': dict(merged['notes']),
        'engine': check.engine,
        'repo_path': env.REPO,
        'shards': merged['shards'],
        'new_failure_buckets': {b: f['count'] for b, f in merged['failures'].items()},
    }
    if selftest is not None:
        cov['model_selftest'] = selftest
    cov.update(check.extra_evidence(merged))
    evidence = {
        'property_id': prop, 'tier': tier, 'seed': seed, 'level': check.level,
        'coverage': cov, 'assumptions': list(check.assumptions), 'wall_s': round(wall, 2),
        'violations': len(violations),
    }
    os.makedirs(os.path.join(VERIF, 'evidence'), exist_ok=True)
    # ASN1V_EVIDENCE_DIR: write the evidence of an exploratory run (other seed, scaled-down tier) somewhere else
    edir = os.environ.get('ASN1V_EVIDENCE_DIR') or os.path.join(VERIF, 'evidence')
    os.makedirs(edir, exist_ok=True)
    with open(os.path.join(edir, prop + '.json'), 'w') as fo:
        json.dump(evidence, fo, indent=1, sort_keys=True, default=str)

    print('%s tier=%s seed=%d cases=%d evaluations=%d distinct_nontrivial=%d known-attributed=%d '
          'wall=%.1fs' % (prop, tier, seed, merged['cases'], merged['evaluations'],
                          len(merged['nontrivial']), sum(merged['known'].values()), wall))
    if violations:
        for path, msg in violations:
            print('  failure: %s' % msg[:600])
            print('VIOLATION property=%s replay=%s' % (prop, path))
        return 1
    return 0


def machine_run(machine_cls, seed, max_examples, steps, rec, shrink=False, timeout=None):
    """Run a RuleBasedStateMachine (collect mode: failures are recorded by the machine
    through rec.fail and never raised; shrink mode: ShrinkHit is raised and minimised)."""
    import hypothesis
    from hypothesis import settings, HealthCheck, Phase
    from hypothesis.stateful import run_state_machine_as_test
    phases = [Phase.generate, Phase.shrink] if shrink else [Phase.generate]
    st = settings(max_examples=max_examples, stateful_step_count=steps, database=None, deadline=None,
                  derandomize=False, report_multiple_bugs=False, phases=phases, print_blob=False,
                  suppress_health_check=list(HealthCheck), verbosity=hypothesis.Verbosity.quiet)
    machine_cls.REC = rec
    machine_cls.T_START = time.time()
    machine_cls.TIMEOUT = timeout
    try:
        run_state_machine_as_test(hypothesis.seed(seed)(machine_cls), settings=st)
    except ShrinkHit:
        pass
    except _Timeout:
        rec.notes['shrink-timeout'] += 1
    except Exception as e:
        # Hypothesis wraps failures of stateful tests; a ShrinkHit inside is expected in shrink mode
        if shrink and rec.best is not None:
            return
        raise


def machine_tick(machine):
    """call at the start of each machine: honours the shrink time budget"""
    if machine.TIMEOUT and time.time() - machine.T_START > machine.TIMEOUT:
        raise _Timeout()
