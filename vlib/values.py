"""Value strategies for AST types: Python values in the representation the
asn1tools documentation defines, satisfying every constraint in the AST.
Boundary-biased."""
import datetime
import math
import struct

from hypothesis import strategies as st

from . import asn

INT_EDGES = [0, 1, -1, 2, -2, 127, 128, -128, -129, 255, 256, 32767, 32768, -32768, -32769,
             65535, 65536, 2 ** 31 - 1, 2 ** 31, -2 ** 31, -2 ** 31 - 1, 2 ** 32 - 1, 2 ** 32,
             2 ** 63 - 1, 2 ** 63, -2 ** 63, -2 ** 63 - 1, 2 ** 64 - 1, 2 ** 64, 2 ** 70]
LEN_EDGES = [0, 1, 2, 3, 7, 8, 9, 15, 16, 17, 63, 64, 65, 127, 128, 129, 255, 256, 257]
BIG_LENS = [16383, 16384, 16385, 32768, 49152, 65535, 65536, 70000]
# lengths on both sides of the one/two-octet length forms (BER 127/128 and 255/256, PER 127/128, OER 127/128),
# above max_len; drawn for a few percent of the lengths so that most values stay small
MID_LENS = [63, 64, 65, 127, 128, 129, 255, 256, 257, 300, 1000]
REAL_EDGES = [0.0, 1.0, -1.0, 0.5, 1.5, 2.0, 255.0, 256.0, 65535.0, 0.1, -0.1, 1e-5, 1e-7,
              1e16, 1e300, -1e300, 1e-300, 5e-324, 2.2250738585072014e-308,
              1.7976931348623157e308, 3.141592653589793, 123456789.125, 2.0 ** 60, 2.0 ** -60,
              float('inf'), float('-inf')] + \
    [2.0 ** k for k in (126, 127, 128, 129, -126, -127, -128, -129, -130, 255, 256, 1023, -1022, -1074)] + \
    [3 * 2.0 ** 127, -2.0 ** 127, 255 * 2.0 ** 120, 65535 * 2.0 ** -144, 5 * 2.0 ** -131]


class ValCfg(object):
    def __init__(self, numeric_enums=False, big=False, chars='any', nan=False, neg_zero=False,
                 max_len=40, max_depth=4, tz=True, out_of_root=True, partial_additions=True,
                 dirty_bits=True, real_int=False, bmp_only=False, utc_seconds=True,
                 gt_micro=True, time_kinds_tz=False, mid=True, mid_rate=7):
        self.numeric_enums = numeric_enums
        self.big = big
        self.chars = chars          # 'any' | 'xml'
        self.nan = nan
        self.neg_zero = neg_zero
        self.max_len = max_len
        self.max_depth = max_depth
        self.tz = tz
        self.out_of_root = out_of_root
        self.partial_additions = partial_additions
        self.dirty_bits = dirty_bits
        self.real_int = real_int
        self.gt_micro = gt_micro
        self.mid = mid              # lengths in MID_LENS
        self.mid_rate = mid_rate


def xml_ok(c):
    o = ord(c)
    return (o in (9, 10, 13) or 0x20 <= o <= 0xD7FF or 0xE000 <= o <= 0xFFFD
            or 0x10000 <= o <= 0x10FFFF)


class VG(object):
    def __init__(self, draw, spec, cfg):
        self.draw = draw
        self.spec = spec
        self.cfg = cfg

    def d(self, s):
        return self.draw(s)

    def chance(self, p):
        return self.d(st.integers(0, 99)) < p

    def pick(self, seq):
        return self.d(st.sampled_from(list(seq)))

    # ------------------------------------------------------------------
    def length(self, size, unit_cost=1, allow_big=True, inner=()):
        n = self.length1(size, unit_cost, allow_big)
        for c in inner:
            if not c.ext and not c.contains_root(n) and self.chance(85):
                n = min(max(n, c.lo or 0), c.hi if c.hi is not None else n)
        return n

    def length1(self, size, unit_cost=1, allow_big=True):
        cfg = self.cfg
        n = self._length(size, allow_big and not getattr(self, '_big_used', False),
                         allow_big and getattr(self, '_mid_used', 0) < 2)
        if n > cfg.max_len:
            self._mid_used = getattr(self, '_mid_used', 0) + 1
        if n >= 16383:
            # at most one 16K+ length per top-level value: nested big lengths multiply into values that take
            # minutes per case without exercising anything new
            self._big_used = True
        return n

    def _length(self, size, big_ok, mid_ok=False):
        cfg = self.cfg
        lo = 0
        hi = None
        ext = False
        if size is not None:
            lo = size.lo or 0
            hi = size.hi
            ext = size.ext
        cap = cfg.max_len
        cands = [x for x in LEN_EDGES if x <= cap]
        # a SIZE whose upper bound lies beyond max_len is there for its long values: use them half of the time
        mid = cfg.mid and mid_ok and self.chance(50 if (hi is not None and cap < hi <= 1000) else cfg.mid_rate)
        if mid:
            cands = cands + [x for x in MID_LENS if x > cap]
        big = cfg.big and big_ok and self.chance(12)
        if big:
            cands = cands + BIG_LENS
        if ext and cfg.out_of_root and self.chance(35):
            # any length is admitted by an extensible SIZE
            n = self.pick(cands + [lo, lo + 1, (hi or lo) + 1])
            return max(0, n)
        ok = [x for x in cands + [lo, lo + 1] + ([hi, hi - 1] if hi is not None else [])
              if x >= lo and (hi is None or x <= hi) and (x <= max(cap, lo) or (mid and x <= 1000) or
                                                          (big and (x in BIG_LENS or (hi is not None and x in (hi, hi - 1))) and x <= 70001))]
        if not ok:
            return lo
        if mid or big:
            # the long candidates were asked for: take one of them most of the time
            longs = [x for x in ok if x > cap]
            if longs and self.chance(75):
                return self.pick(longs)
        if self.chance(60):
            return self.pick(ok)
        top = hi if hi is not None else lo + cap
        top = min(top, max(lo, cap))
        return self.d(st.integers(lo, max(lo, top)))

    def integer(self, rng):
        if rng is None:
            if self.chance(70):
                return self.pick(INT_EDGES)
            return self.d(st.integers(-2 ** 66, 2 ** 66))
        lo, hi = rng.lo, rng.hi
        if rng.ext and self.cfg.out_of_root and self.chance(35):
            if rng.more and self.chance(50):
                a, b = self.pick(rng.more)
                return self.d(st.integers(a, b))
            c = self.pick(INT_EDGES)
            return c
        cands = []
        if lo is not None:
            cands += [lo, lo + 1]
        if hi is not None:
            cands += [hi, hi - 1]
        cands += INT_EDGES
        cands = [c for c in cands if rng.contains_root(c)]
        if cands and self.chance(65):
            return self.pick(cands)
        if lo is None and hi is None:
            return self.d(st.integers(-2 ** 66, 2 ** 66))
        a = lo if lo is not None else (hi - 2 ** 20)
        b = hi if hi is not None else (a + 2 ** 20)
        return self.d(st.integers(a, b))

    def real(self, wc):
        if wc is not None and abs(wc[0]) <= 16777216 and abs(wc[1]) <= 16777216:
            x = self.real(None)
            try:
                y = struct.unpack('>f', struct.pack('>f', x))[0]
            except OverflowError:
                y = float('inf') if x > 0 else float('-inf')
            if y == 0.0 and not self.cfg.neg_zero:
                y = 0.0         # rounding a tiny negative number to binary32 must not smuggle in minus zero
            return y
        r = self.d(st.integers(0, 99))
        if r < 50:
            x = self.pick(REAL_EDGES)
        elif r < 55 and self.cfg.nan:
            x = float('nan')
        elif r < 60 and self.cfg.neg_zero:
            x = -0.0
        else:
            x = self.d(st.floats(allow_nan=False, allow_infinity=False))
            if x == 0.0:
                x = 0.0
        if self.cfg.real_int and self.chance(10) and x == x and abs(x) < 2 ** 50:
            return int(x)
        return x

    def string(self, kind, size, alpha, inner=()):
        n = self.length(size, inner=inner)
        if alpha is not None:
            chars = alpha.chars()
            return ''.join(self.pick(chars) for _ in range(n)) if n <= 64 else \
                self.pick(chars) * n
        if kind == 'NumericString':
            base = st.sampled_from(asn.NUMERIC_ALPHA)
        elif kind == 'PrintableString':
            base = st.sampled_from(asn.PRINTABLE_ALPHA)
        elif kind == 'VisibleString':
            base = st.sampled_from(asn.VISIBLE_ALPHA)
        elif kind == 'IA5String':
            base = st.characters(min_codepoint=0, max_codepoint=127)
        elif kind in ('GeneralString', 'GraphicString', 'TeletexString'):
            base = st.characters(min_codepoint=0, max_codepoint=255)
        elif kind == 'BMPString':
            base = st.characters(min_codepoint=0, max_codepoint=0xFFFF, blacklist_categories=('Cs',))
        else:   # UTF8String, UniversalString
            base = st.one_of(st.characters(min_codepoint=0, max_codepoint=0x7F),
                             st.characters(blacklist_categories=('Cs',)),
                             st.sampled_from(u'åäö€\U0001F600<>&"\']\x00 \t\n\r'))
        if self.cfg.chars == 'xml':
            base = base.filter(xml_ok)
        if n > 64:
            c = self.d(base)
            return c * n
        return ''.join(self.d(st.lists(base, min_size=n, max_size=n)))

    def bitstring(self, base, size):
        n = self.length(size)
        if base.named_bits and (size is None or size.ext) and self.chance(50):
            n = max(p for _, p in base.named_bits) + 1 + self.pick([0, 0, 1, 8])
            if size is not None and not size.contains_root(n):
                n = self.length(size)
        nbytes = (n + 7) // 8
        if nbytes > 64:
            data = bytearray(self.d(st.binary(min_size=1, max_size=1)) * nbytes)
        else:
            data = bytearray(self.d(st.binary(min_size=nbytes, max_size=nbytes)))
        dirty = self.cfg.dirty_bits is True or (self.cfg.dirty_bits == 'unnamed' and not base.named_bits)
        if n % 8 and not (dirty and self.chance(30)):
            data[-1] &= (0xff << (8 - n % 8)) & 0xff
        if base.named_bits and self.chance(40):
            # trailing zero bits
            for i in range(max(0, n - self.pick([1, 3, 9])), n):
                data[i // 8] &= ~(0x80 >> (i % 8)) & 0xff
        if self.chance(5) and dirty:
            data += b'\xff'     # more bytes than needed is accepted by the type checker
        return (bytes(data), n)

    def oid(self):
        first = self.pick([0, 1, 2])
        if first < 2:
            second = self.d(st.integers(0, 39))
        else:
            second = self.pick([0, 1, 39, 40, 47, 48, 100, 999, 2 ** 32]) if self.chance(60) else \
                self.d(st.integers(0, 200))
        rest = self.d(st.lists(st.one_of(st.sampled_from([0, 1, 127, 128, 16383, 16384, 2 ** 32, 2 ** 64]),
                                         st.integers(0, 100000)), min_size=0, max_size=6))
        return '.'.join(str(x) for x in [first, second] + rest)

    def tzinfo(self):
        if not self.cfg.tz or self.chance(50):
            return None
        mins = self.pick([0, 60, -60, 330, -480, 765, -90])
        return datetime.timezone(datetime.timedelta(minutes=mins))

    def time(self, kind):
        if kind == 'UTCTime':
            y = self.d(st.integers(1970, 2067))
            dt = self.d(st.datetimes(min_value=datetime.datetime(y, 1, 1),
                                     max_value=datetime.datetime(y, 12, 31, 23, 59, 59)))
            dt = dt.replace(microsecond=0)
            if self.chance(25):
                dt = dt.replace(second=0)
            return dt.replace(tzinfo=self.tzinfo())
        if kind == 'GeneralizedTime':
            dt = self.d(st.datetimes(min_value=datetime.datetime(1000, 1, 2),
                                     max_value=datetime.datetime(9999, 12, 30)))
            if not self.cfg.gt_micro or self.chance(60):
                dt = dt.replace(microsecond=0)
            elif self.chance(50):
                dt = dt.replace(microsecond=self.pick([500000, 120000, 1000, 1, 999999]))
            if self.chance(25):
                dt = dt.replace(second=0)
            return dt.replace(tzinfo=self.tzinfo())
        if kind == 'DATE':
            return self.d(st.dates(min_value=datetime.date(1000, 1, 1)))
        if kind == 'TIME-OF-DAY':
            t = self.d(st.times())
            return t.replace(microsecond=0)
        if kind == 'DATE-TIME':
            dt = self.d(st.datetimes(min_value=datetime.datetime(1000, 1, 1)))
            return dt.replace(microsecond=0)
        raise ValueError(kind)

    # ------------------------------------------------------------------
    def value(self, ty, modname, depth=0):
        if depth == 0:
            self._big_used = False
            self._mid_used = 0
        r = asn.resolve(self.spec, ty, modname)
        b = r.base
        k = b.kind
        cfg = self.cfg
        if k == 'BOOLEAN':
            return self.d(st.booleans())
        if k == 'INTEGER':
            v = self.integer(r.rng)
            if len(r.rngs) > 1 and isinstance(v, int):
                # serial application: stay inside the inner (non-extensible) ranges as well, most of the time
                for c in r.rngs[1:]:
                    if not c.ext and not c.contains_root(v) and self.chance(85):
                        v = min(max(v, c.lo if c.lo is not None else v), c.hi if c.hi is not None else v)
            return v
        if k == 'REAL':
            return self.real(b.wc)
        if k == 'NULL':
            return None
        if k == 'ENUMERATED':
            items = list(b.enum_root) + list(b.enum_ext or [])
            e = self.pick(items)
            return e[1] if cfg.numeric_enums else e[0]
        if k == 'BIT STRING':
            return self.bitstring(b, r.size)
        if k == 'OCTET STRING':
            n = self.length(r.size, inner=r.sizes[1:])
            if n > 64:
                return self.d(st.binary(min_size=1, max_size=1)) * n
            return self.d(st.binary(min_size=n, max_size=n))
        if k == 'OBJECT IDENTIFIER':
            return self.oid()
        if k in asn.STRING_KINDS:
            alpha = r.alpha
            if alpha is None and r.alpha_ext is not None and not (self.cfg.out_of_root and self.chance(35)):
                alpha = r.alpha_ext     # extensible alphabet: mostly root characters, sometimes any character
            return self.string(k, r.size, alpha, inner=r.sizes[1:])
        if k in asn.TIME_KINDS:
            return self.time(k)
        if k in ('SEQUENCE', 'SET'):
            return self.members(b, r.mod, depth)
        if k == 'CHOICE':
            alts = b.all_members()
            if depth >= cfg.max_depth:
                flat = [m for m in alts if not self.recursive_hop(m.ty, r.mod)]
                alts = flat or alts
            m = self.pick(alts)
            return (m.name, self.value(m.ty, r.mod, depth + 1))
        if k in ('SEQUENCE OF', 'SET OF'):
            if depth >= cfg.max_depth and (r.size is None or not r.size.lo):
                return []
            simple = asn.base_kind(self.spec, b.elem, r.mod) in ('BOOLEAN', 'INTEGER', 'NULL', 'ENUMERATED')
            n = self.length(r.size, allow_big=simple, inner=r.sizes[1:])
            if n > 8:
                # keep nested values small: repeat a few drawn elements
                base = [self.value(b.elem, r.mod, depth + 1) for _ in range(3)]
                return [base[i % 3] for i in range(n)]
            return [self.value(b.elem, r.mod, depth + 1) for _ in range(n)]
        raise ValueError(k)

    def recursive_hop(self, ty, modname):
        return ty.kind == 'REF' and asn.base_kind(self.spec, ty, modname) in (
            'SEQUENCE', 'SET', 'CHOICE', 'SEQUENCE OF', 'SET OF')

    def member_value(self, m, modname, depth, out):
        deep = depth >= self.cfg.max_depth
        if m.optional:
            if deep or self.chance(40):
                return
        elif m.has_default:
            r = self.d(st.integers(0, 99))
            if r < 35:
                return
            if r < 55:
                v = m.default
                if self.cfg.numeric_enums and isinstance(v, str):
                    base = asn.resolve(self.spec, m.ty, modname).base
                    if base.kind == 'ENUMERATED':
                        v = dict((e[0], e[1]) for e in base.enum_root)[v]
                out[m.name] = v
                return
        out[m.name] = self.value(m.ty, modname, depth + 1)

    def members(self, b, modname, depth):
        out = {}
        for m in b.root:
            self.member_value(m, modname, depth, out)
        for m in (b.root2 or []):
            self.member_value(m, modname, depth, out)
        if b.ext:
            # a value of version k: additions 0..k-1 known, the rest absent
            k = len(b.ext)
            if self.cfg.partial_additions and self.chance(30):
                k = self.d(st.integers(0, len(b.ext)))
            for a in b.ext[:k]:
                if isinstance(a, asn.Group):
                    all_opt = all(m.optional or m.has_default for m in a.members)
                    if all_opt and self.chance(30):
                        continue
                    for m in a.members:
                        self.member_value(m, modname, depth, out)
                else:
                    self.member_value(a, modname, depth, out)
        return out


def values_for(spec, ty, modname, cfg):
    @st.composite
    def _s(draw):
        return VG(draw, spec, cfg).value(ty, modname)
    return _s()


def to_numeric_enums(spec, ty, modname, v):
    """Rewrite ENUMERATED names to numbers (numeric_enums=True representation)."""
    r = asn.resolve(spec, ty, modname)
    b = r.base
    k = b.kind
    if k == 'ENUMERATED' and isinstance(v, str):
        for e in list(b.enum_root) + list(b.enum_ext or []):
            if e[0] == v:
                return e[1]
        return v
    if k in ('SEQUENCE', 'SET') and isinstance(v, dict):
        out = {}
        for m in b.all_members():
            if m.name in v:
                out[m.name] = to_numeric_enums(spec, m.ty, r.mod, v[m.name])
        for kk in v:
            if kk not in out:
                out[kk] = v[kk]
        return out
    if k == 'CHOICE' and isinstance(v, tuple) and len(v) == 2:
        for m in b.all_members():
            if m.name == v[0]:
                return (v[0], to_numeric_enums(spec, m.ty, r.mod, v[1]))
        return v
    if k in ('SEQUENCE OF', 'SET OF') and isinstance(v, list):
        return [to_numeric_enums(spec, b.elem, r.mod, x) for x in v]
    return v
